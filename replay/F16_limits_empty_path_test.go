package limits

import "testing"

// F16 (C11): `limits { body "" 1 }` reaches addPathLimit with an empty path: it must not index path[0].
func TestGovcReplayF16(t *testing.T) {
	defer func() {
		if r := recover(); r != nil {
			t.Fatalf("DEFECT-REPRODUCED: addPathLimit(\"\") panicked: %v", r)
		}
	}()
	out := addPathLimit(nil, "", 1)
	if len(out) != 1 || out[0].Path != "/" {
		t.Fatalf("unexpected result %v", out)
	}
}
