package proxy

import "testing"

// F07 (C05): round robin must find the only available host when the 32-bit counter wraps around.
func TestGovcReplayF07(t *testing.T) {
	pool := HostPool{{Name: "a", Unhealthy: 1}, {Name: "b", Unhealthy: 1}, {Name: "c"}}
	r := &RoundRobin{robin: 0xFFFFFFFE}
	if h := r.Select(pool, nil); h != pool[2] {
		t.Fatalf("DEFECT-REPRODUCED: RoundRobin.Select returned %v with robin near wrap-around although host 2 is available", h)
	}
}
