package proxy

import (
	"testing"
)

// F31 (C11): `proxy / host:1-70000` — a port range is expanded without looking at the numbers: 70000 "hosts" are created
// although a TCP port is at most 65535, and with host:1-9223372036854775807 the loop `for p := pIni; p <= pEnd; p++`
// never ends (p wraps at MaxInt64 while memory fills up): the load hangs instead of ending with an error.
func TestGovcReplayF31(t *testing.T) {
	hosts, err := parseUpstream("localhost:1-70000")
	if err != nil {
		return // rejected: fine
	}
	if len(hosts) > 65536 {
		t.Fatalf("DEFECT-REPRODUCED: port range 1-70000 accepted and expanded to %d upstream hosts (ports above 65535 do not exist; 1-9223372036854775807 never finishes)", len(hosts))
	}
}
