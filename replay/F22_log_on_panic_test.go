package log

import (
	"bytes"
	stdlog "log"
	"net/http"
	"net/http/httptest"
	"testing"

	"github.com/tmpim/casket/caskethttp/httpserver"
)

// F22 (C20): a request whose handler panics below `log` (no `errors` in between) is answered 500 by the server's
// recover wrapper; the access log must still have one line for it.
func TestGovcReplayF22(t *testing.T) {
	var out bytes.Buffer
	logger := Logger{
		Rules: []*Rule{{PathScope: "/", Entries: []*Entry{{Format: DefaultLogFormat, Log: httpserver.NewTestLogger(&out)}}}},
		Next: httpserver.HandlerFunc(func(w http.ResponseWriter, r *http.Request) (int, error) {
			panic("handler below log panics")
		}),
	}
	_ = stdlog.Flags
	r := httptest.NewRequest("GET", "/", nil)
	rep := httpserver.NewReplacer(r, nil, "-")
	_ = rep
	w := httptest.NewRecorder()
	func() {
		defer func() {
			if rec := recover(); rec != nil {
				// what (*Server).ServeHTTP does: answer 500
				w.WriteHeader(500)
			}
		}()
		logger.ServeHTTP(w, r)
	}()
	if out.Len() == 0 {
		t.Fatalf("DEFECT-REPRODUCED: the client got %d from the server's recover wrapper and the access log has no line for the request", w.Code)
	}
}
