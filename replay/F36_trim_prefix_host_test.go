package httpserver

import (
	"net/http"
	"net/http/httptest"
	"net/url"
	"os"
	"path/filepath"
	"testing"

	"github.com/tmpim/casket/caskethttp/staticfiles"
)

// F36 (C02): for a site defined with a path prefix (example.com/foo) Server.serveHTTP trims the prefix from the request
// URL by re-parsing the remainder. A remainder that starts with two slashes is parsed as scheme-relative:
// GET /foo//evil.com/.. becomes a URL with Host "evil.com" and Path "/..". The static file server then redirects the
// directory request to "//evil.com/../", another origin ("every redirect it issues starts with exactly one '/'").
func TestGovcReplayF36(t *testing.T) {
	in, err := url.ParseRequestURI("/foo//evil.com/..")
	if err != nil {
		t.Skip(err)
	}
	out := trimPathPrefix(in, "/foo")
	root := t.TempDir()
	os.WriteFile(filepath.Join(root, "index.html"), []byte("hi"), 0644)
	r := httptest.NewRequest("GET", "/foo//evil.com/..", nil)
	r.URL = out
	w := httptest.NewRecorder()
	fs := staticfiles.FileServer{Root: http.Dir(root)}
	fs.ServeHTTP(w, r)
	loc := w.Header().Get("Location")
	if out.Host != "" || (len(loc) >= 2 && loc[0] == '/' && loc[1] == '/') {
		t.Fatalf("DEFECT-REPRODUCED: trimming /foo from /foo//evil.com/.. gives Host=%q Path=%q; the file server answers %d Location=%q", out.Host, out.Path, w.Code, loc)
	}
}
