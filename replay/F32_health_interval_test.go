package proxy

import (
	"strings"
	"testing"
	"time"

	"github.com/tmpim/casket/casketfile"
)

// F32 (C11): `health_check_interval 0s` (or a negative duration) is accepted by the proxy setup; the health-check worker
// it starts calls time.NewTicker with it, which panics ("non-positive interval for NewTicker") in a goroutine nobody
// recovers: the process crashes right after a load that reported success.
func TestGovcReplayF32(t *testing.T) {
	for _, arg := range []string{"0s", "-5s"} {
		u := &staticUpstream{}
		u.HealthCheck.Interval = 30 * time.Second
		d := casketfile.NewDispenser("Testfile", strings.NewReader("health_check_interval "+arg))
		d.Next()
		err := parseBlock(&d, u, false)
		if err != nil {
			continue // rejected: fine
		}
		if u.HealthCheck.Interval <= 0 {
			func() {
				defer func() {
					if p := recover(); p != nil {
						t.Fatalf("DEFECT-REPRODUCED: health_check_interval %s accepted (Interval=%v); the worker's time.NewTicker panics: %v", arg, u.HealthCheck.Interval, p)
					}
				}()
				time.NewTicker(u.HealthCheck.Interval).Stop() // what HealthCheckWorker does first with this value
			}()
		}
	}
}
