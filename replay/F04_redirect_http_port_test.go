package httpserver

import (
	"strconv"
	"testing"

	"github.com/caddyserver/certmagic"
	"github.com/tmpim/casket/caskettls"
)

// F04 (C15): a TLS-enabled config that itself sits on the HTTP port must not get a synthesised redirect site
// on that same host:port (it would redirect to https://host:80, i.e. back at an HTTP address).
func TestGovcReplayF04(t *testing.T) {
	httpPort := strconv.Itoa(certmagic.HTTPPort)
	cfgs := []*SiteConfig{{Addr: Address{Host: "a.example", Port: httpPort}, TLS: &caskettls.Config{Enabled: true}}}
	out := makePlaintextRedirects(cfgs)
	if len(out) != 1 {
		t.Fatalf("DEFECT-REPRODUCED: %d configs after makePlaintextRedirects, a redirect site %v was synthesised for a site on the HTTP port", len(out), out[len(out)-1].Addr)
	}
}
