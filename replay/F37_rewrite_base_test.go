package rewrite

import (
	"github.com/tmpim/casket/caskethttp/httpserver"
	"net/http/httptest"
	"testing"
)

// F37 (C19): a `rewrite` block with a regexp slices the request path at len(base) after Path.Matches has accepted it.
// Path.Matches compares CLEANED (and case-folded) paths, so a request path that matches can be shorter than the base as
// written: base "/a//b/" accepts the request "/a/b/", and rPath[len(base):] is out of range: the handler panics.
func TestGovcReplayF37(t *testing.T) {
	for _, tc := range []struct{ base, path string }{
		{"/a//b/", "/a/b/"},
		{"/docs/./api", "/docs/api"},
	} {
		rule, err := NewComplexRule(tc.base, "(.*)", "/index.php?u={1}", nil, httpserver.IfMatcher{})
		if err != nil {
			t.Skip(err)
		}
		func() {
			defer func() {
				if p := recover(); p != nil {
					t.Fatalf("DEFECT-REPRODUCED: rewrite base %q, request %q: %v", tc.base, tc.path, p)
				}
			}()
			req := httptest.NewRequest("GET", tc.path, nil)
			rule.Match(req)
		}()
	}
}

// second witness: `ext ""` in a rewrite block is accepted by the setup; matchExt then indexes v[0] of the empty string
// on every request the rule's base matches.
func TestGovcReplayF37b(t *testing.T) {
	rule, err := NewComplexRule("/", "", "/x", []string{""}, httpserver.IfMatcher{})
	if err != nil {
		return
	}
	defer func() {
		if p := recover(); p != nil {
			t.Fatalf("DEFECT-REPRODUCED: rewrite with an empty extension entry: %v", p)
		}
	}()
	rule.Match(httptest.NewRequest("GET", "/page.html", nil))
}
