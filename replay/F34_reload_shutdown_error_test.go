package casket

import (
	"errors"
	"sync"
	"testing"
)

// F34 (C16): a reload whose successor is already live must run EVERY shutdown callback of the old instance once and must
// not run its restart-failed callbacks. Restart returned at the first shutdown callback that reported an error: the
// remaining shutdown callbacks never ran, the restart-failed callbacks ran although the new instance is serving, and the
// caller was handed the old (stopped, unlisted) instance with an error.
func TestGovcReplayF34(t *testing.T) {
	const serverName = "govc-f34"
	RegisterServerType(serverName, ServerType{
		Directives: func() []string { return []string{} },
		NewContext: func(inst *Instance) Context { return &CallbackTestContext{} },
	})
	old := &Instance{serverType: serverName, wg: new(sync.WaitGroup)}
	var calls []string
	old.OnShutdown = append(old.OnShutdown, func() error { calls = append(calls, "shutdown1"); return errors.New("closing log: disk full") })
	old.OnShutdown = append(old.OnShutdown, func() error { calls = append(calls, "shutdown2"); return nil })
	old.OnRestartFailed = append(old.OnRestartFailed, func() error { calls = append(calls, "restart-failed"); return nil })
	inst, err := old.Restart(CasketfileInput{Contents: []byte(""), ServerTypeName: serverName})
	live := false
	for _, in := range Instances() {
		if in != old {
			live = true
			defer in.Stop()
		}
	}
	if !live {
		t.Skip("no successor instance is live")
	}
	ranAll := len(calls) == 2 && calls[0] == "shutdown1" && calls[1] == "shutdown2"
	if !ranAll || inst == old {
		t.Fatalf("DEFECT-REPRODUCED: successor is live, but the old instance's callbacks ran as %v (want [shutdown1 shutdown2]) and Restart returned old instance=%v err=%v", calls, inst == old, err)
	}
}
