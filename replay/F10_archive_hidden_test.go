package browse

import (
	"archive/zip"
	"bytes"
	"net/http"
	"net/http/httptest"
	"os"
	"path/filepath"
	"testing"

	"github.com/tmpim/casket/caskethttp/staticfiles"
)

// F10 (C02): a directory archive must not contain a hidden file (the Casketfile).
func TestGovcReplayF10(t *testing.T) {
	root := t.TempDir()
	os.WriteFile(filepath.Join(root, "Casketfile"), []byte("secret config"), 0644)
	os.WriteFile(filepath.Join(root, "pub.txt"), []byte("public"), 0644)
	fs := staticfiles.FileServer{Root: http.Dir(root), Hide: []string{"/Casketfile"}}
	bc := &Config{PathScope: "/", Fs: fs, ArchiveTypes: []ArchiveType{ArchiveZip}, BufferSize: 1 << 16}
	info, err := os.Stat(root)
	if err != nil {
		t.Skip(err)
	}
	w := httptest.NewRecorder()
	r := httptest.NewRequest("GET", "/?archive=zip", nil)
	if _, err := (Browse{}).ServeArchive(w, r, "/", info, ArchiveZip, bc); err != nil {
		t.Skip("archive failed: ", err)
	}
	zr, err := zip.NewReader(bytes.NewReader(w.Body.Bytes()), int64(w.Body.Len()))
	if err != nil {
		t.Skip("not a zip: ", err)
	}
	sawPub := false
	for _, f := range zr.File {
		if f.Name == "Casketfile" || filepath.Base(f.Name) == "Casketfile" {
			t.Fatalf("DEFECT-REPRODUCED: the archive of the site root contains the hidden file %q", f.Name)
		}
		if filepath.Base(f.Name) == "pub.txt" {
			sawPub = true
		}
	}
	if !sawPub {
		t.Skip("public file missing from the archive; test set-up problem")
	}
}
