package caskettls

import (
	"testing"

	"github.com/caddyserver/certmagic"
	"github.com/tmpim/casket"
)

func govcSetupTLS(t *testing.T, input string) (err error, panicked interface{}) {
	cfg := &Config{Manager: certmagic.NewDefault(), Issuer: new(certmagic.ACMEIssuer)}
	RegisterConfigGetter("govcreplay", func(c *casket.Controller) *Config { return cfg })
	c := casket.NewTestController("govcreplay", input)
	defer func() { panicked = recover() }()
	err = setupTLS(c)
	return
}

// F15 (C11): `tls { key_type }` and `tls { protocols }` without an argument must end in an error, not a panic.
func TestGovcReplayF15(t *testing.T) {
	for _, in := range []string{"tls {\n key_type\n}", "tls {\n protocols\n}"} {
		err, p := govcSetupTLS(t, in)
		if p != nil {
			t.Fatalf("DEFECT-REPRODUCED: setupTLS panicked on %q: %v", in, p)
		}
		if err == nil {
			t.Fatalf("expected an argument error for %q", in)
		}
	}
}
