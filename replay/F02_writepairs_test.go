package fastcgi

import (
	"bytes"
	"strings"
	"testing"
)

type govcNopRWC struct{ bytes.Buffer }

func (govcNopRWC) Close() error { return nil }

// F02 (C13, C19): a parameter whose name alone exceeds one record must not panic writePairs (v[:vl] with vl < 0).
func TestGovcReplayF02(t *testing.T) {
	defer func() {
		if r := recover(); r != nil {
			t.Fatalf("DEFECT-REPRODUCED: writePairs panicked: %v", r)
		}
	}()
	c := &FCGIClient{rwc: &govcNopRWC{}}
	if err := c.writePairs(Params, map[string]string{strings.Repeat("k", 65505): "v"}); err != nil {
		t.Log("error:", err)
	}
}
