package proxy

import (
	"bufio"
	"net"
	"net/http/httptest"
	"strings"
	"testing"

	"github.com/tmpim/casket/casketfile"
	"github.com/tmpim/casket/caskethttp/httpserver"
)

// F35 (C04): a backend response that names hop-by-hop headers on more than one Connection line: every header named on
// any of the lines must be removed before the response is relayed. ReverseProxy.ServeHTTP reads res.Header.Get("Connection"),
// i.e. only the first line, so a header named on the second line reaches the client.
func TestGovcReplayF35(t *testing.T) {
	ln, err := net.Listen("tcp", "127.0.0.1:0")
	if err != nil {
		t.Skip(err)
	}
	defer ln.Close()
	go func() {
		for {
			c, err := ln.Accept()
			if err != nil {
				return
			}
			go func(c net.Conn) {
				defer c.Close()
				br := bufio.NewReader(c)
				for {
					l, err := br.ReadString('\n')
					if err != nil || l == "\r\n" {
						break
					}
				}
				c.Write([]byte("HTTP/1.1 200 OK\r\nConnection: X-First-Hop\r\nConnection: X-Second-Hop\r\nX-First-Hop: a\r\nX-Second-Hop: b\r\nX-End-To-End: c\r\nContent-Length: 2\r\n\r\nok"))
			}(c)
		}
	}()
	ups, err := NewStaticUpstreams(casketfile.NewDispenser("Testfile", strings.NewReader("proxy / http://"+ln.Addr().String()+" {\n try_duration 0\n}")), "")
	if err != nil {
		t.Fatal(err)
	}
	p := &Proxy{Next: httpserver.EmptyNext, Upstreams: ups}
	w := httptest.NewRecorder()
	r := httptest.NewRequest("GET", "/", nil)
	if _, err := p.ServeHTTP(w, r); err != nil {
		t.Skip(err)
	}
	if w.Header().Get("X-End-To-End") != "c" {
		t.Skipf("end-to-end header missing: %v", w.Header())
	}
	if w.Header().Get("X-First-Hop") != "" || w.Header().Get("X-Second-Hop") != "" {
		t.Fatalf("DEFECT-REPRODUCED: response named X-First-Hop and X-Second-Hop hop-by-hop on two Connection lines; relayed headers: %v", w.Header())
	}
}
