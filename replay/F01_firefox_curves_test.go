package httpserver

import (
	"crypto/tls"
	"testing"
)

// F01 (C19): a ClientHello with the Firefox extension order and exactly five curves must not panic the heuristic.
// Passes on a tree where the defect is repaired; on the defective tree it prints DEFECT-REPRODUCED and fails.
func TestGovcReplayF01(t *testing.T) {
	defer func() {
		if r := recover(); r != nil {
			t.Fatalf("DEFECT-REPRODUCED: looksLikeFirefox panicked: %v", r)
		}
	}()
	info := rawHelloInfo{
		Extensions: []uint16{23, 65281, 10, 11, 35, 16, 5, 13},
		Curves:     []tls.CurveID{29, 23, 24, 25, 256},
	}
	_ = info.looksLikeFirefox()
}
