package httpserver

import (
	"testing"
	"time"
)

// F13 (C17): on a shared listener the strictest configured timeout wins; a co-hosted site with `timeouts none`
// (value 0 = no timeout, the least strict) must not remove another site's read timeout.
func TestGovcReplayF13(t *testing.T) {
	group := []*SiteConfig{
		{Timeouts: Timeouts{ReadTimeout: 10 * time.Second, ReadTimeoutSet: true}},
		{Timeouts: Timeouts{ReadTimeout: 0, ReadTimeoutSet: true}},
	}
	s := makeHTTPServerWithTimeouts("127.0.0.1:0", group)
	if s.ReadTimeout != 10*time.Second {
		t.Fatalf("DEFECT-REPRODUCED: ReadTimeout of the shared listener is %v, want the strictest configured value 10s", s.ReadTimeout)
	}
}
