package casket

import (
	"sync"
	"testing"
)

// F30 (C08, C16): a reload that panics (here: in a restart callback) is a FAILED reload: Restart must report an error and
// hand back the old instance, so that the caller restores the event hooks. It returned (nil, nil).
func TestGovcReplayF30(t *testing.T) {
	failed := 0
	old := &Instance{serverType: "x", wg: new(sync.WaitGroup)}
	old.OnRestart = append(old.OnRestart, func() error { panic("boom during reload") })
	old.OnRestartFailed = append(old.OnRestartFailed, func() error { failed++; return nil })
	inst, err := old.Restart(nil)
	if failed != 1 {
		t.Skipf("restart-failed callbacks ran %d times", failed)
	}
	if err == nil || inst != old {
		t.Fatalf("DEFECT-REPRODUCED: the reload panicked, OnRestartFailed ran, yet Restart returned (%v, %v): the caller is told it succeeded", inst, err)
	}
}
