package limits

import (
	"io"
	"math"
	"strings"
	"testing"
)

// F14 (C17): a limit of MaxInt64 must not overflow in `l.n+1` (slice bounds out of range on the first body read).
func TestGovcReplayF14(t *testing.T) {
	defer func() {
		if r := recover(); r != nil {
			t.Fatalf("DEFECT-REPRODUCED: maxBytesReader.Read panicked with limit MaxInt64: %v", r)
		}
	}()
	rd := MaxBytesReader(nil, io.NopCloser(strings.NewReader("hello")), math.MaxInt64)
	buf := make([]byte, 16)
	n, err := rd.Read(buf)
	if n != 5 || (err != nil && err != io.EOF) {
		t.Fatalf("unexpected read result %d %v", n, err)
	}
}
