package gzip

import (
	"net/http/httptest"
	"testing"
)

// F08 (C18): a response that already carries Content-Encoding: zstd (what the file server emits for .zst siblings)
// must not be selected for gzip compression again.
func TestGovcReplayF08(t *testing.T) {
	w := httptest.NewRecorder()
	w.Header().Set("Content-Encoding", "zstd")
	if (SkipCompressedFilter{}).ShouldCompress(w) {
		t.Fatal("DEFECT-REPRODUCED: SkipCompressedFilter wants to gzip a response that is already zstd-encoded")
	}
}
