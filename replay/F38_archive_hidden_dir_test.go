package browse

import (
	"archive/zip"
	"bytes"
	"io/ioutil"
	"net/http"
	"net/http/httptest"
	"os"
	"path/filepath"
	"strings"
	"testing"

	"github.com/tmpim/casket/caskethttp/staticfiles"
)

// F38 (C03, C02): what lies under a hidden directory - an `internal` location is put on the site's hide list by its
// setup - must not come out in a directory archive of a parent directory. The archive request (GET /?archive=zip) is not
// under the internal path, so the internal handler lets it through; the walk used to visit the hidden directory, return
// nil for it (not archived itself) and then descend into it.
func TestGovcReplayF38(t *testing.T) {
	root := t.TempDir()
	os.MkdirAll(filepath.Join(root, "secret", "deep"), 0755)
	os.WriteFile(filepath.Join(root, "secret", "members.csv"), []byte("INTERNAL-MEMBERS"), 0644)
	os.WriteFile(filepath.Join(root, "secret", "deep", "keys.txt"), []byte("INTERNAL-KEYS"), 0644)
	os.WriteFile(filepath.Join(root, "pub.txt"), []byte("public"), 0644)
	// what `internal /secret` leaves in SiteConfig.HiddenFiles and thereby in the browse file server's hide list
	fs := staticfiles.FileServer{Root: http.Dir(root), Hide: []string{"/secret"}}
	bc := &Config{PathScope: "/", Fs: fs, ArchiveTypes: []ArchiveType{ArchiveZip}, BufferSize: 1 << 16}
	info, err := os.Stat(root)
	if err != nil {
		t.Skip(err)
	}
	w := httptest.NewRecorder()
	r := httptest.NewRequest("GET", "/?archive=zip", nil)
	if _, err := (Browse{}).ServeArchive(w, r, "/", info, ArchiveZip, bc); err != nil {
		t.Skip("archive failed: ", err)
	}
	zr, err := zip.NewReader(bytes.NewReader(w.Body.Bytes()), int64(w.Body.Len()))
	if err != nil {
		t.Skip("not a zip: ", err)
	}
	sawPub := false
	for _, f := range zr.File {
		if strings.Contains(filepath.ToSlash(f.Name), "secret/") && !f.FileInfo().IsDir() {
			rc, _ := f.Open()
			b, _ := ioutil.ReadAll(rc)
			rc.Close()
			t.Fatalf("DEFECT-REPRODUCED: the archive of the site root contains %q (%q), a file under the hidden directory /secret", f.Name, string(b))
		}
		if filepath.Base(f.Name) == "pub.txt" {
			sawPub = true
		}
	}
	if !sawPub {
		t.Skip("public file missing from the archive; test set-up problem")
	}
}
