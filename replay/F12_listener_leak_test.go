package casket

import (
	"errors"
	"net"
	"sync"
	"testing"
	"time"
)

type govcFakeServer struct {
	failListen bool
	ln         net.Listener
}

func (s *govcFakeServer) Listen() (net.Listener, error) {
	if s.failListen {
		return nil, errors.New("address already in use")
	}
	ln, err := net.Listen("tcp", "127.0.0.1:0")
	s.ln = ln
	return ln, err
}
func (s *govcFakeServer) Serve(ln net.Listener) error              { time.Sleep(time.Hour); return nil }
func (s *govcFakeServer) ListenPacket() (net.PacketConn, error)    { return nil, nil }
func (s *govcFakeServer) ServePacket(pc net.PacketConn) error      { return nil }

// F12 (C08): when the second server fails to listen, the socket of the first must not stay open.
func TestGovcReplayF12(t *testing.T) {
	first := &govcFakeServer{}
	inst := &Instance{serverType: "x", wg: new(sync.WaitGroup)}
	err := startServers([]Server{first, &govcFakeServer{failListen: true}}, inst, nil)
	if err == nil {
		t.Skip("startServers unexpectedly succeeded")
	}
	if first.ln == nil {
		t.Skip("first listener not opened")
	}
	c, derr := net.DialTimeout("tcp", first.ln.Addr().String(), time.Second)
	if derr == nil {
		c.Close()
		first.ln.Close()
		t.Fatalf("DEFECT-REPRODUCED: startServers returned %q but the first server's socket %s still accepts connections", err, first.ln.Addr())
	}
}
