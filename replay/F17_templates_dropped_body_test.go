package templates

import (
	"bytes"
	"errors"
	"net/http"
	"net/http/httptest"
	"sync"
	"testing"

	"github.com/tmpim/casket/caskethttp/httpserver"
)

// F17 (C12): when the handler below has written a (buffered) response and returns (0, err) - as fastcgi does when
// the responder printed to stderr - the client must still receive that response body.
func TestGovcReplayF17(t *testing.T) {
	tmpl := Templates{
		Next: httpserver.HandlerFunc(func(w http.ResponseWriter, r *http.Request) (int, error) {
			w.Header().Set("Content-Type", "text/html; charset=utf-8")
			w.WriteHeader(200)
			w.Write([]byte("<p>hello from below</p>"))
			return 0, errors.New("responder wrote to stderr")
		}),
		Rules:   []Rule{{Path: "/", Extensions: []string{".html"}, IndexFiles: []string{"index.html"}}},
		Root:    ".",
		FileSys: http.Dir("."),
		BufPool: &sync.Pool{New: func() interface{} { return new(bytes.Buffer) }},
	}
	r := httptest.NewRequest("GET", "/", nil)
	w := httptest.NewRecorder()
	code, _ := tmpl.ServeHTTP(w, r)
	if code == 0 && w.Body.Len() == 0 {
		t.Fatalf("DEFECT-REPRODUCED: templates returned 0 (response written) but the client got status %d with an empty body; the buffered response was dropped", w.Code)
	}
}
