package status

import (
	"net/http/httptest"
	"testing"

	"github.com/tmpim/casket"
	"github.com/tmpim/casket/caskethttp/httpserver"
)

// F28 (C11 by interpretation, C12): `status 42 /x` must be rejected when the configuration is loaded; it was accepted
// and the first request to /x panicked in WriteHeader ("invalid WriteHeader code 42").
func TestGovcReplayF28(t *testing.T) {
	c := casket.NewTestController("http", "status 42 /x")
	err := setup(c)
	if err != nil {
		return // rejected at load time: fine
	}
	mids := httpserver.GetConfig(c).Middleware()
	if len(mids) == 0 {
		t.Skip("no middleware")
	}
	h := mids[0](httpserver.EmptyNext)
	defer func() {
		if p := recover(); p != nil {
			t.Fatalf("DEFECT-REPRODUCED: `status 42 /x` loads, and the request panics: %v", p)
		}
	}()
	h.ServeHTTP(httptest.NewRecorder(), httptest.NewRequest("GET", "/x", nil))
}
