package basicauth

import (
	"testing"
	"time"
)

// F03 (C08): after a load naming a missing htpasswd file, the next call must not block on the leaked mutex.
func TestGovcReplayF03(t *testing.T) {
	if _, err := GetHtpasswdMatcher("no-such-htpasswd-file", "u", t.TempDir()); err == nil {
		t.Skip("expected an error for a missing file")
	}
	done := make(chan struct{})
	go func() {
		GetHtpasswdMatcher("no-such-htpasswd-file", "u", t.TempDir())
		close(done)
	}()
	select {
	case <-done:
	case <-time.After(3 * time.Second):
		t.Fatal("DEFECT-REPRODUCED: second GetHtpasswdMatcher call blocks (mutex left held by the failed first call)")
	}
}
