package push

import "testing"

// F24 (C19): a backend Link header with '>' before '<' must not panic the parser.
func TestGovcReplayF24(t *testing.T) {
	for _, h := range []string{"><", "x>y<z", ">"} {
		func() {
			defer func() {
				if p := recover(); p != nil {
					t.Fatalf("DEFECT-REPRODUCED: parseLinkHeader(%q) panicked: %v", h, p)
				}
			}()
			parseLinkHeader(h)
		}()
	}
}
