package proxy

import (
	"io"
	"net/http"
	"net/http/httptest"
	"strings"
	"testing"

	"github.com/tmpim/casket/casketfile"
	"github.com/tmpim/casket/caskethttp/httpserver"
	"github.com/tmpim/casket/caskethttp/limits"
)

// F33 (C17): a proxied request body larger than the site's body limit must end in 413 for every way the body is framed.
// With a Content-Length the transport copies the body through net.TCPConn.ReadFrom, which wraps the reader's error in a
// *net.OpError; Proxy.ServeHTTP compares the backend error with == against ErrMaxBytesExceeded, so the limit error is
// not recognised and the client gets 502 instead of 413 (a chunked body, copied without ReadFrom, does get 413).
func TestGovcReplayF33(t *testing.T) {
	backend := httptest.NewServer(http.HandlerFunc(func(w http.ResponseWriter, r *http.Request) {
		io.Copy(io.Discard, r.Body)
		w.WriteHeader(200)
	}))
	defer backend.Close()
	ups, err := NewStaticUpstreams(casketfile.NewDispenser("Testfile", strings.NewReader("proxy / "+backend.URL+" {\n try_duration 0\n}")), "")
	if err != nil {
		t.Fatal(err)
	}
	p := &Proxy{Next: httpserver.EmptyNext, Upstreams: ups}
	lim := limits.Limit{Next: p, BodyLimits: []httpserver.PathLimit{{Path: "/", Limit: 10}}}
	for _, framing := range []string{"content-length", "chunked"} {
		body := strings.Repeat("x", 4096)
		var r *http.Request
		if framing == "chunked" {
			r = httptest.NewRequest("POST", "/upload", io.NopCloser(strings.NewReader(body)))
			r.ContentLength = -1
			r.TransferEncoding = []string{"chunked"}
		} else {
			r = httptest.NewRequest("POST", "/upload", strings.NewReader(body))
		}
		w := httptest.NewRecorder()
		status, err := lim.ServeHTTP(w, r)
		if status != http.StatusRequestEntityTooLarge {
			t.Errorf("DEFECT-REPRODUCED: %s body of %d bytes over a 10-byte limit, proxied: status %d (err %v), want 413", framing, len(body), status, err)
		}
	}
}
