package browse

import (
	"bufio"
	"net/http"
	"net/http/httptest"
	"os"
	"path/filepath"
	"strings"
	"testing"

	"github.com/tmpim/casket/caskethttp/httpserver"
	"github.com/tmpim/casket/caskethttp/staticfiles"
)

// F21 (C02): the directory redirect of browse must stay on the same origin: Location starts with exactly one '/'.
func TestGovcReplayF21(t *testing.T) {
	root := t.TempDir()
	os.WriteFile(filepath.Join(root, "pub.txt"), []byte("public"), 0644)
	b := Browse{
		Next:    httpserver.HandlerFunc(func(w http.ResponseWriter, r *http.Request) (int, error) { return 404, nil }),
		Configs: []Config{{PathScope: "/", Fs: staticfiles.FileServer{Root: http.Dir(root)}}},
	}
	for _, target := range []string{"//evil.example/..", "//evil.example/%2e%2e"} {
		r, err := http.ReadRequest(bufio.NewReader(strings.NewReader("GET " + target + " HTTP/1.1\r\nHost: site.test\r\n\r\n")))
		if err != nil {
			t.Skip(err)
		}
		w := httptest.NewRecorder()
		b.ServeHTTP(w, r)
		loc := w.Header().Get("Location")
		if strings.HasPrefix(loc, "//") {
			t.Fatalf("DEFECT-REPRODUCED: GET %s is answered %d with Location: %s (scheme-relative: another origin)", target, w.Code, loc)
		}
	}
}
