package fastcgi

import (
	"bufio"
	"net/http"
	"strings"
	"testing"
)

// F25 (C19, C13): with case-insensitive paths (the default) the split position must be an index into the ORIGINAL path.
// `Ⱥ` (2 bytes) lower-cases to `ⱥ` (3 bytes): the index into the lower-cased copy sliced the original out of range;
// letters that get shorter (`İ`) silently split at the wrong byte.
func TestGovcReplayF25(t *testing.T) {
	for _, target := range []string{"/%C8%BA%C8%BA%C8%BA%C8%BA.php", "/%C4%B0%C4%B0%C4%B0%C4%B0.php/extra"} {
		r, err := http.ReadRequest(bufio.NewReader(strings.NewReader("GET " + target + " HTTP/1.1\r\nHost: site.test\r\n\r\n")))
		if err != nil {
			t.Skip(err)
		}
		rule := Rule{Path: "/", SplitPath: ".php", Ext: ".php"}
		h := Handler{Root: t.TempDir()}
		func() {
			defer func() {
				if p := recover(); p != nil {
					t.Fatalf("DEFECT-REPRODUCED: GET %s panics in buildEnv: %v", target, p)
				}
			}()
			env, err := h.buildEnv(r, rule, r.URL.Path)
			if err != nil {
				return
			}
			if !strings.HasSuffix(env["SCRIPT_NAME"], ".php") {
				t.Fatalf("DEFECT-REPRODUCED: GET %s is split at the wrong byte: SCRIPT_NAME=%q PATH_INFO=%q", target, env["SCRIPT_NAME"], env["PATH_INFO"])
			}
		}()
	}
}
