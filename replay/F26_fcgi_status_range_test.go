package fastcgi

import (
	"bytes"
	"encoding/binary"
	"io"
	"net/http/httptest"
	"testing"
)

type govcCannedConn struct {
	r io.Reader
}

func (c *govcCannedConn) Read(p []byte) (int, error)  { return c.r.Read(p) }
func (c *govcCannedConn) Write(p []byte) (int, error) { return len(p), nil }
func (c *govcCannedConn) Close() error                { return nil }

func govcRecord(typ uint8, content []byte) []byte {
	var b bytes.Buffer
	binary.Write(&b, binary.BigEndian, header{Version: 1, Type: typ, ID: 1, ContentLength: uint16(len(content))})
	b.Write(content)
	return b.Bytes()
}

// F26 (C19, C13): a responder answering `Status: 0` (or 99, 1000) must not make the handler panic in WriteHeader.
func TestGovcReplayF26(t *testing.T) {
	for _, st := range []string{"0", "99 x", "1000"} {
		stream := append(govcRecord(Stdout, []byte("Status: "+st+"\r\nContent-Type: text/plain\r\n\r\nbody")), govcRecord(Stdout, nil)...)
		stream = append(stream, govcRecord(EndRequest, make([]byte, 8))...)
		c := &FCGIClient{rwc: &govcCannedConn{r: bytes.NewReader(stream)}, reqID: 1}
		resp, err := c.Get(map[string]string{}, nil, 0)
		if err != nil {
			continue // rejected: fine
		}
		func() {
			defer func() {
				if p := recover(); p != nil {
					t.Fatalf("DEFECT-REPRODUCED: responder status %q reaches WriteHeader: %v", st, p)
				}
			}()
			writeHeader(httptest.NewRecorder(), resp)
		}()
	}
}
