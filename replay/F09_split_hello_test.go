package httpserver

import (
	"bytes"
	"net"
	"reflect"
	"testing"
	"time"
)

type govcChunkConn struct {
	chunks [][]byte
}

func (c *govcChunkConn) Read(b []byte) (int, error) {
	if len(c.chunks) == 0 {
		return 0, nil
	}
	n := copy(b, c.chunks[0])
	c.chunks[0] = c.chunks[0][n:]
	if len(c.chunks[0]) == 0 {
		c.chunks = c.chunks[1:]
	}
	return n, nil
}
func (c *govcChunkConn) Write(b []byte) (int, error)        { return len(b), nil }
func (c *govcChunkConn) Close() error                       { return nil }
func (c *govcChunkConn) LocalAddr() net.Addr                { return &net.TCPAddr{} }
func (c *govcChunkConn) RemoteAddr() net.Addr               { return &net.TCPAddr{IP: net.IPv4(10, 0, 0, 1), Port: 4242} }
func (c *govcChunkConn) SetDeadline(t time.Time) error      { return nil }
func (c *govcChunkConn) SetReadDeadline(t time.Time) error  { return nil }
func (c *govcChunkConn) SetWriteDeadline(t time.Time) error { return nil }

func govcHello() []byte {
	// record header (5) + handshake: type 1, len(3), version 0x0303, random(32), sid len 0, 2 suites, 1 compression, no extensions
	body := []byte{1, 0, 0, 43, 3, 3}
	body = append(body, make([]byte, 32)...)
	body = append(body, 0, 0, 4, 0x13, 0x01, 0xc0, 0x2b, 1, 0, 0, 0)
	body[3] = byte(len(body) - 4)
	return append([]byte{22, 3, 1, byte(len(body) >> 8), byte(len(body))}, body...)
}

func govcRecord(chunks [][]byte) (rawHelloInfo, bool) {
	ln := &tlsHelloListener{helloInfos: make(map[string]rawHelloInfo)}
	conn := &govcChunkConn{chunks: chunks}
	c := &clientHelloConn{Conn: conn, listener: ln, buf: new(bytes.Buffer)}
	b := make([]byte, 4096)
	for i := 0; i < 8 && len(conn.chunks) > 0; i++ {
		c.Read(b)
	}
	info, ok := ln.helloInfos[conn.RemoteAddr().String()]
	return info, ok
}

// F09 (C19): what is recorded about a ClientHello must not depend on how its bytes were split across reads.
func TestGovcReplayF09(t *testing.T) {
	h := govcHello()
	whole, okW := govcRecord([][]byte{append([]byte{}, h...)})
	if !okW {
		t.Skip("hello not recorded even when delivered whole")
	}
	for cut := 1; cut < len(h); cut++ {
		split, okS := govcRecord([][]byte{append([]byte{}, h[:cut]...), append([]byte{}, h[cut:]...)})
		if !okS || !reflect.DeepEqual(whole, split) {
			t.Fatalf("DEFECT-REPRODUCED: hello delivered as %d+%d bytes: recorded=%v %+v, delivered whole: %+v", cut, len(h)-cut, okS, split, whole)
		}
	}
}
