package staticfiles

import (
	"net/http"
	"net/http/httptest"
	"os"
	"path/filepath"
	"strings"
	"testing"
)

// F11 (C02): a hidden precompressed sibling (Hide = ["/a.gz"]) must not be served in place of /a,
// and a directory named a.gz must not reach ServeContent either.
func TestGovcReplayF11(t *testing.T) {
	root := t.TempDir()
	os.WriteFile(filepath.Join(root, "a"), []byte("plain content"), 0644)
	os.WriteFile(filepath.Join(root, "a.gz"), []byte("HIDDEN-SIBLING-BYTES"), 0644)
	fs := FileServer{Root: http.Dir(root), Hide: []string{"/a.gz"}}
	r := httptest.NewRequest("GET", "/a", nil)
	r.Header.Set("Accept-Encoding", "gzip")
	w := httptest.NewRecorder()
	fs.ServeHTTP(w, r)
	if strings.Contains(w.Body.String(), "HIDDEN-SIBLING-BYTES") {
		t.Fatalf("DEFECT-REPRODUCED: GET /a with Accept-Encoding: gzip returned the bytes of the hidden file a.gz")
	}
}
