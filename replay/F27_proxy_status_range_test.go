package proxy

import (
	"bufio"
	"net"
	"net/http"
	"net/http/httptest"
	"net/url"
	"testing"
	"time"
)

// F27 (C19, C04): a backend answering `HTTP/1.1 099 odd` must not make the reverse proxy panic in WriteHeader.
func TestGovcReplayF27(t *testing.T) {
	ln, err := net.Listen("tcp", "127.0.0.1:0")
	if err != nil {
		t.Skip(err)
	}
	defer ln.Close()
	go func() {
		for {
			c, err := ln.Accept()
			if err != nil {
				return
			}
			go func(c net.Conn) {
				defer c.Close()
				http.ReadRequest(bufio.NewReader(c))
				c.Write([]byte("HTTP/1.1 099 odd\r\nContent-Length: 0\r\nConnection: close\r\n\r\n"))
			}(c)
		}
	}()
	u, _ := url.Parse("http://" + ln.Addr().String())
	rp := NewSingleHostReverseProxy(u, "", 0, 5*time.Second, 300*time.Millisecond)
	r := httptest.NewRequest("GET", "/", nil)
	defer func() {
		if p := recover(); p != nil {
			t.Fatalf("DEFECT-REPRODUCED: backend status 099 reaches WriteHeader: %v", p)
		}
	}()
	rp.ServeHTTP(httptest.NewRecorder(), r, nil)
}
