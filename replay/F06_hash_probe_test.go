package proxy

import (
	"fmt"
	"testing"
)

// F06 (C05): hash-based selection must find the only available host wherever it sits (three hosts: the original
// triangular probing h, h+1, h+3 never visited slot h+2).
func TestGovcReplayF06(t *testing.T) {
	for up := 0; up < 3; up++ {
		pool := HostPool{{Name: "a"}, {Name: "b"}, {Name: "c"}}
		for i := range pool {
			if i != up {
				pool[i].Unhealthy = 1
			}
		}
		for key := 0; key < 64; key++ {
			if h := hostByHashing(pool, fmt.Sprint("key", key)); h != pool[up] {
				t.Fatalf("DEFECT-REPRODUCED: hostByHashing returned %v for key %d although host %d is available", h, key, up)
			}
		}
	}
}
