package proxy

import (
	"net/http"
	"net/http/httptest"
	"testing"
)

func govcUpstreamHeader(h http.Header) http.Header {
	r := httptest.NewRequest("GET", "/", nil)
	r.Header = h
	out, cancel := createUpstreamRequest(httptest.NewRecorder(), r)
	defer cancel()
	return out.Header
}

// F20a (C04): a hop-by-hop header whose FIRST value is empty must still be removed.
func TestGovcReplayF20a(t *testing.T) {
	out := govcUpstreamHeader(http.Header{"Te": {"", "trailers"}, "Keep-Alive": {"", "timeout=5"}})
	for _, k := range []string{"Te", "Keep-Alive"} {
		if _, ok := out[k]; ok {
			t.Fatalf("DEFECT-REPRODUCED: hop-by-hop header %s (first value empty) reaches the backend: %v", k, out[k])
		}
	}
}

// F20b (C04): headers named in a SECOND Connection line must be removed as well.
func TestGovcReplayF20b(t *testing.T) {
	out := govcUpstreamHeader(http.Header{"Connection": {"keep-alive", "X-Secret"}, "X-Secret": {"1"}})
	if _, ok := out["X-Secret"]; ok {
		t.Fatalf("DEFECT-REPRODUCED: header X-Secret, named in the second Connection value, reaches the backend")
	}
}
