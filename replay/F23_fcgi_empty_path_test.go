package fastcgi

import (
	"bufio"
	"net/http"
	"net/http/httptest"
	"strings"
	"testing"

	"github.com/tmpim/casket/caskethttp/httpserver"
)

// F23 (C19): an absolute-form request target without a path (`GET http://site.test HTTP/1.1`, URL.Path == "")
// must not make the FastCGI handler index fpath[-1].
func TestGovcReplayF23(t *testing.T) {
	r, err := http.ReadRequest(bufio.NewReader(strings.NewReader("GET http://site.test HTTP/1.1\r\nHost: site.test\r\n\r\n")))
	if err != nil {
		t.Skip(err)
	}
	h := Handler{
		Next:  httpserver.HandlerFunc(func(w http.ResponseWriter, r *http.Request) (int, error) { return 404, nil }),
		Rules: []Rule{{Path: "/", balancer: address("127.0.0.1:1")}},
		Root:  t.TempDir(),
	}
	defer func() {
		if p := recover(); p != nil {
			t.Fatalf("DEFECT-REPRODUCED: FastCGI handler panicked on an empty request path: %v", p)
		}
	}()
	h.ServeHTTP(httptest.NewRecorder(), r)
}

// F29 (observation, serve-time): the literal upstream address "unix" must not be sliced out of range.
func TestGovcReplayF29(t *testing.T) {
	defer func() {
		if p := recover(); p != nil {
			t.Fatalf("DEFECT-REPRODUCED: parseAddress(\"unix\") panicked: %v", p)
		}
	}()
	parseAddress("unix")
}
