package main

import (
	"bytes"
	"fmt"
	"go/ast"
	"go/printer"
	"go/token"
	"regexp"
	"sort"
	"strings"

	"golang.org/x/tools/go/ast/astutil"
)

// Obligation names must survive harmless edits (shifted lines): run-time-check obligations are named after the
// source text of the checked expression, call-related ones after the ordinal of the call among the calls to the
// same callee. The line stays available in the position field of the report.

var syntaxByFile = map[string]*ast.File{} // filename -> syntax
var nameFset *token.FileSet

var exprKindRe = regexp.MustCompile(`^(index|slice|div|nilmap|makeslice|nonnil|no_overflow|panic|unlock_of_held)@(\d+)$`)
var lineNumRe = regexp.MustCompile(`(@|_line)(\d+)`)

func exprTextAt(pos token.Position, kind string) string {
	f := syntaxByFile[pos.Filename]
	if f == nil || nameFset == nil {
		return ""
	}
	tf := nameFset.File(f.Pos())
	if tf == nil || pos.Offset < 0 || pos.Offset >= tf.Size() {
		return ""
	}
	p := tf.Pos(pos.Offset)
	path, _ := astutil.PathEnclosingInterval(f, p, p+1)
	var pick ast.Node
	for _, n := range path {
		switch x := n.(type) {
		case *ast.IndexExpr:
			if kind == "index" || kind == "nilmap" {
				pick = x
			}
		case *ast.SliceExpr:
			if kind == "slice" {
				pick = x
			}
		case *ast.BinaryExpr:
			if kind == "div" || kind == "no_overflow" {
				pick = x
			}
		case *ast.CallExpr:
			if kind == "makeslice" || kind == "panic" || kind == "unlock_of_held" {
				pick = x
			}
		case *ast.StarExpr, *ast.SelectorExpr:
			if kind == "nonnil" {
				pick = n
			}
		case *ast.AssignStmt, *ast.IncDecStmt:
			if pick == nil && (kind == "nilmap" || kind == "no_overflow" || kind == "div") {
				pick = n
			}
		}
		if pick != nil {
			break
		}
	}
	if pick == nil {
		return ""
	}
	var b bytes.Buffer
	printer.Fprint(&b, nameFset, pick)
	s := strings.Join(strings.Fields(b.String()), " ")
	if len(s) > 70 {
		s = s[:70] + "…"
	}
	return s
}

// stabiliseNames rewrites the obligation names of one function (in place).
func stabiliseNames(obs []Oblig) {
	// 1. expression-keyed names
	seen := map[string][]int{}
	for i := range obs {
		m := exprKindRe.FindStringSubmatch(obs[i].Name)
		if m == nil {
			continue
		}
		txt := exprTextAt(obs[i].Pos, m[1])
		if txt == "" {
			continue
		}
		n := m[1] + "[" + txt + "]"
		obs[i].Name = n
		seen[n] = append(seen[n], i)
	}
	for n, idxs := range seen {
		if len(idxs) < 2 {
			continue
		}
		sort.Slice(idxs, func(a, b int) bool { return obs[idxs[a]].Pos.Offset < obs[idxs[b]].Pos.Offset })
		k := 0
		lastOff := -1
		for _, i := range idxs {
			if obs[i].Pos.Offset != lastOff {
				k++
				lastOff = obs[i].Pos.Offset
			}
			if k > 1 {
				obs[i].Name = fmt.Sprintf("%s#%d", n, k)
			}
		}
	}
	// 2. everything else that still carries a line number: ordinal of the position within its group
	groups := map[string][]int{}
	for i := range obs {
		if lineNumRe.MatchString(obs[i].Name) {
			key := lineNumRe.ReplaceAllString(obs[i].Name, "$1")
			groups[key] = append(groups[key], i)
		}
	}
	for _, idxs := range groups {
		var lines []int
		for _, i := range idxs {
			m := lineNumRe.FindStringSubmatch(obs[i].Name)
			var l int
			fmt.Sscan(m[2], &l)
			lines = append(lines, l)
		}
		uniq := append([]int{}, lines...)
		sort.Ints(uniq)
		rank := map[int]int{}
		for _, l := range uniq {
			if _, ok := rank[l]; !ok {
				rank[l] = len(rank) + 1
			}
		}
		for j, i := range idxs {
			r := rank[lines[j]]
			obs[i].Name = lineNumRe.ReplaceAllStringFunc(obs[i].Name, func(s string) string {
				if strings.HasPrefix(s, "_line") {
					return fmt.Sprintf("#%d", r)
				}
				return fmt.Sprintf("#%d", r)
			})
		}
	}
}
