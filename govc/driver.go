package main

import (
	"encoding/json"
	"flag"
	"fmt"
	"io/fs"
	"os"
	"os/exec"
	"path/filepath"
	"regexp"
	"sort"
	"strings"
	"sync"
	"time"
)

func verifDir() string {
	if d := os.Getenv("VERIF_DIR"); d != "" {
		return d
	}
	return "/verif"
}

// outDir: where reports, replay records and evidence are written (VERIF_OUT redirects them, e.g. for runs against a scratch copy).
func outBase() string {
	if d := os.Getenv("VERIF_OUT"); d != "" {
		return d
	}
	return verifDir()
}

// ---------- unit discovery ----------

func discoverUnits() ([]UnitHeader, error) {
	var out []UnitHeader
	err := filepath.WalkDir(repoDir(), func(p string, d fs.DirEntry, err error) error {
		if err != nil {
			return nil
		}
		if d.IsDir() && (d.Name() == ".git" || d.Name() == "vendor" || d.Name() == "dist") {
			return filepath.SkipDir
		}
		if !d.IsDir() && d.Name() == "contracts_verif.go" {
			us, err := listUnits(p)
			if err != nil {
				return err
			}
			out = append(out, us...)
		}
		return nil
	})
	sort.Slice(out, func(i, j int) bool {
		if out[i].File != out[j].File {
			return out[i].File < out[j].File
		}
		return out[i].Line < out[j].Line
	})
	return out, err
}

func unitProps(u UnitHeader) []string {
	var out []string
	for _, p := range strings.Split(u.Attrs["props"], ",") {
		if p = strings.TrimSpace(p); p != "" {
			out = append(out, p)
		}
	}
	return out
}

func hasProp(u UnitHeader, prop string) bool {
	for _, p := range unitProps(u) {
		if p == prop {
			return true
		}
	}
	return false
}

func unitPkg(u UnitHeader) string {
	if u.Attrs["pkg"] != "" {
		return u.Attrs["pkg"]
	}
	rel, _ := filepath.Rel(repoDir(), filepath.Dir(u.File))
	return "./" + rel
}

func cmdUnits(args []string) int {
	us, err := discoverUnits()
	if err != nil {
		fmt.Fprintln(os.Stderr, err)
		return 2
	}
	for _, u := range us {
		fmt.Printf("%-28s props=%-12s pkg=%-28s filter=%s\n", u.Name, u.Attrs["props"], unitPkg(u), u.Attrs["filter"])
	}
	return 0
}

// ---------- known findings ----------

type Finding struct {
	ID         string   `json:"id"`
	Properties []string `json:"properties"`
	Obligation string   `json:"obligation"` // "<pkg>.<func>/<obligation name>", '*' matches any run of characters
	What       string   `json:"what"`       // the specific input / call site / history that fails
	Witness    string   `json:"witness"`
	ReplayTest string   `json:"replay_test,omitempty"` // file under /verif/replay: an in-package test that PASSES while the defect reproduces
	ReplayPkg  string   `json:"replay_pkg,omitempty"`
	ReplayRun  string   `json:"replay_run,omitempty"`
	DesignRow  string   `json:"design_row,omitempty"`
}

type KnownFindings struct {
	Open  []Finding `json:"open"`
	Fixed []string  `json:"fixed"` // "fixed: property=<id> <commit> <what failed>" — suppress nothing
}

func loadKnown() KnownFindings {
	var k KnownFindings
	b, err := os.ReadFile(filepath.Join(verifDir(), "known_findings.json"))
	if err == nil {
		if err := json.Unmarshal(b, &k); err != nil {
			fmt.Fprintln(os.Stderr, "known_findings.json:", err)
		}
	}
	return k
}

func globMatch(pat, s string) bool {
	re := "^" + strings.ReplaceAll(regexp.QuoteMeta(pat), `\*`, ".*") + "$"
	ok, _ := regexp.MatchString(re, s)
	return ok
}

// ---------- check ----------

type failure struct {
	Unit      string
	Func      string
	Ob        ObReport
	Reason    string
	FullName  string // "<func>/<obligation>"
	Treatment string
}

func cmdCheck(args []string) int {
	fset := flag.NewFlagSet("check", flag.ExitOnError)
	tier := fset.String("tier", "quick", "quick|thorough")
	par := fset.Int("j", 8, "units verified in parallel")
	keep := fset.Bool("keep", false, "keep per-unit reports")
	if len(args) < 1 {
		fmt.Fprintln(os.Stderr, "usage: govc check <property> [-tier quick|thorough]")
		return 2
	}
	prop := args[0]
	fset.Parse(args[1:])
	if t := os.Getenv("VERIF_TIER"); t == "quick" || t == "thorough" {
		*tier = t
	}
	seed := 0
	if s := os.Getenv("VERIF_SEED"); s != "" {
		fmt.Sscan(s, &seed)
	}
	t0 := time.Now()
	units, err := discoverUnits()
	if err != nil {
		fmt.Fprintln(os.Stderr, "ERROR:", err)
		return 2
	}
	var mine []UnitHeader
	for _, u := range units {
		if hasProp(u, prop) {
			mine = append(mine, u)
		}
	}
	outDir := filepath.Join(outBase(), "out", prop)
	os.RemoveAll(outDir)
	os.MkdirAll(outDir, 0755)
	known := loadKnown()
	var knownList []string
	for _, f := range known.Open {
		knownList = append(knownList, f.Obligation)
	}
	knownFile := filepath.Join(outDir, "known.txt")
	os.WriteFile(knownFile, []byte(strings.Join(knownList, "\n")+"\n"), 0644)

	self, _ := os.Executable()
	reports := make([]UnitReport, len(mine))
	var wg sync.WaitGroup
	sem := make(chan struct{}, *par)
	for i, u := range mine {
		wg.Add(1)
		go func(i int, u UnitHeader) {
			defer wg.Done()
			sem <- struct{}{}
			defer func() { <-sem }()
			// unit names repeat across packages (every directive has a setup_sweep): the report file is keyed by package and unit
			jf := filepath.Join(outDir, "unit_"+sanitize.ReplaceAllString(unitPkg(u)+"_"+u.Name, "_")+".json")
			var out []byte
			var err error
			var rep UnitReport
			// a unit process that dies without a report (killed, transient load failure) is run once more before it is reported
			for attempt := 0; attempt < 2 && rep.Unit == ""; attempt++ {
				cmd := exec.Command(self, "unit", "-file", u.File, "-unit", u.Name, "-json", jf, "-smtdir", filepath.Join(outDir, "smt", sanitize.ReplaceAllString(unitPkg(u), "_")), "-tier", *tier, "-known", knownFile)
				cmd.Env = append(os.Environ(), "GOFLAGS=-mod=mod", "GOPROXY=off", "GOSUMDB=off", "GOTOOLCHAIN=local")
				out, err = cmd.CombinedOutput()
				if b, rerr := os.ReadFile(jf); rerr == nil {
					json.Unmarshal(b, &rep)
				}
			}
			if rep.Unit == "" {
				rep = UnitReport{Unit: u.Name, File: u.File, Attrs: u.Attrs, Error: fmt.Sprintf("unit process failed: %v: %s", err, lastLines(string(out), 5))}
			}
			reports[i] = rep
		}(i, u)
	}
	wg.Wait()

	// ---- classify ----
	var fails []failure
	nOb, nDis, nCover, nFuncs := 0, 0, 0, 0
	solverCount := map[string]int{}
	var solveS, loadS float64
	var funcsEv []map[string]interface{}
	var samples []interface{}
	trusted := map[string]bool{}
	unmodelled := map[string]bool{}
	assumedRepo := map[string]bool{}
	var notCovered []string
	for _, r := range reports {
		loadS += r.LoadS
		if r.Error != "" {
			fails = append(fails, failure{Unit: r.Unit, Func: "(unit)", Ob: ObReport{Name: "unit_error", Kind: "engine", Answer: r.Error}, FullName: r.Unit + "/unit_error", Reason: r.Error})
			continue
		}
		if len(r.Functions) == 0 {
			fails = append(fails, failure{Unit: r.Unit, Func: "(unit)", Ob: ObReport{Name: "contract_target_missing", Kind: "engine", Answer: "the unit's filter matches no function: " + r.Filter}, FullName: r.Unit + "/contract_target_missing", Reason: "no function matches the unit's filter"})
		}
		for _, u := range r.UnusedContracts {
			fails = append(fails, failure{Unit: r.Unit, Func: u, Ob: ObReport{Name: "unused_contract", Kind: "engine", Answer: "a contract of this unit is attached to nothing and used at no call site"}, FullName: u + "/unused_contract", Reason: "unused contract"})
		}
		for _, e := range r.Externs {
			trusted["assumed contract of external function " + e + " (unit " + r.Unit + ")"] = true
		}
		for _, a := range r.Assumed {
			assumedRepo[a+" (used in unit "+r.Unit+")"] = true
		}
		for _, x := range r.Excluded {
			// a function excluded from a sweep but verified by another unit of this check is covered
			covered := false
			for _, r2 := range reports {
				for _, f2 := range r2.Functions {
					if f2.Name == x {
						covered = true
					}
				}
			}
			if !covered {
				notCovered = append(notCovered, x+" (unit "+r.Unit+": excluded from the claimed set, residual imprecision of the sweep)")
			}
		}
		if !r.FrameCheck {
			trusted["unit "+r.Unit+": modifies clauses of callees are trusted (frame obligations not generated for this unit)"] = true
		}
		for _, f := range r.Functions {
			nFuncs++
			if f.CexPlan != nil {
				cexPlans[r.Unit+"|"+f.Name] = f.CexPlan
			}
			solveS += f.SolveS
			fe := map[string]interface{}{"function": f.Name, "unit": r.Unit, "treatment": f.Treatment, "solver_s": round3(f.SolveS), "vcgen_s": round3(f.GenS)}
			fo, fd := 0, 0
			if f.GenPanic != "" {
				fails = append(fails, failure{Unit: r.Unit, Func: f.Name, Ob: ObReport{Name: "generator_failure", Kind: "engine", Answer: f.GenPanic}, FullName: f.Name + "/generator_failure", Reason: "VC generation failed: " + f.GenPanic, Treatment: f.Treatment})
			}
			for _, e := range f.SpecErrors {
				fails = append(fails, failure{Unit: r.Unit, Func: f.Name, Ob: ObReport{Name: "spec_error", Kind: "engine", Answer: e}, FullName: f.Name + "/spec_error", Reason: e, Treatment: f.Treatment})
			}
			if len(f.Obligations) == 0 && f.GenPanic == "" && f.Treatment == "full" {
				fails = append(fails, failure{Unit: r.Unit, Func: f.Name, Ob: ObReport{Name: "no_obligations", Kind: "engine", Answer: "zero obligations generated"}, FullName: f.Name + "/no_obligations", Reason: "zero obligations", Treatment: f.Treatment})
			}
			for _, o := range f.Obligations {
				switch o.Status {
				case "reachable":
					nCover++
					continue
				case "dead-path":
					nCover++
					fails = append(fails, failure{Unit: r.Unit, Func: f.Name, Ob: o, FullName: f.Name + "/" + o.Name, Reason: "cover failed: this return is unreachable under the assumed context (vacuity)", Treatment: f.Treatment})
					continue
				}
				nOb++
				fo++
				if o.Status == "discharged" {
					nDis++
					fd++
					solverCount[o.Solver]++
					if len(samples) < 6 && (o.Kind == "post" || o.Kind == "inv_back" || o.Kind == "index" || o.Kind == "slice") && (len(samples) == 0 || fd == 1) {
						samples = append(samples, map[string]string{"function": f.Name, "obligation": o.Name, "kind": o.Kind, "at": o.Pos, "solver": o.Solver, "result": "unsat (discharged)"})
					}
				} else {
					reason := "undischarged: solver answered " + o.Answer
					if o.Status == "vacuous" {
						reason = "the function's assumption set is contradictory (stand-alone vacuity check): nothing it proves is counted"
					}
					fails = append(fails, failure{Unit: r.Unit, Func: f.Name, Ob: o, FullName: f.Name + "/" + o.Name, Reason: reason, Treatment: f.Treatment})
				}
			}
			fe["obligations"], fe["discharged"] = fo, fd
			funcsEv = append(funcsEv, fe)
			for _, n := range f.Notes {
				switch {
				case strings.HasPrefix(n, "spec used"):
					trusted["built-in "+n] = true
				case strings.HasPrefix(n, "unknown call"):
					unmodelled[n] = true
				default:
					unmodelled[f.Name+": "+n] = true
				}
			}
		}
	}
	if len(mine) == 0 {
		fails = append(fails, failure{Unit: "(none)", Func: "(none)", Ob: ObReport{Name: "no_units", Kind: "engine", Answer: "no verification unit is tagged with this property"}, FullName: "no_units"})
	}

	// ---- known findings ----
	replayDir := filepath.Join(outBase(), "out", "replay", prop)
	os.RemoveAll(replayDir)
	os.MkdirAll(replayDir, 0755)
	violations := 0
	nKnownObs := 0 // obligations that fail on the unchanged tree and are recorded (with a replayed witness) as open known findings: not claimed
	var knownSeen []string
	var lines []string
	knownHit := map[string][]failure{}
	var rest []failure
	// obligations of the code first; reports about the contract text itself (unused contract, specification error) after them
	sort.SliceStable(fails, func(i, j int) bool {
		meta := func(f failure) bool {
			return f.Ob.Kind == "engine" || strings.HasSuffix(f.FullName, "/unused_contract") || strings.HasSuffix(f.FullName, "/spec_error")
		}
		return !meta(fails[i]) && meta(fails[j])
	})
	for _, f := range fails {
		matched := ""
		for _, k := range known.Open {
			applies := false
			for _, p := range k.Properties {
				if p == prop {
					applies = true
				}
			}
			if applies && globMatch(k.Obligation, f.FullName) {
				matched = k.ID
				break
			}
		}
		if matched != "" {
			knownHit[matched] = append(knownHit[matched], f)
		} else {
			rest = append(rest, f)
		}
	}
	for _, k := range known.Open {
		fs := knownHit[k.ID]
		if len(fs) == 0 {
			continue
		}
		// the recorded witness must still reproduce on the real code, otherwise this is something else
		if k.ReplayTest != "" {
			_, out := runReplayTest(k.ReplayPkg, filepath.Join(verifDir(), k.ReplayTest), k.ReplayRun)
			if !strings.Contains(out, "DEFECT-REPRODUCED") {
				for _, f := range fs {
					f.Reason += " (matches known finding " + k.ID + " but its recorded witness no longer reproduces: " + lastLines(out, 3) + ")"
					rest = append(rest, f)
				}
				continue
			}
		}
		var obs []string
		for _, f := range fs {
			obs = append(obs, f.FullName)
		}
		for _, f := range fs {
			if f.Ob.Kind != "engine" && f.Ob.Status != "dead-path" {
				nKnownObs++
			}
		}
		lines = append(lines, fmt.Sprintf("KNOWN-FINDING: property=%s %s %s [%s]", prop, strings.Join(obs, ", "), k.What, k.ID))
		knownSeen = append(knownSeen, k.ID+": "+strings.Join(obs, ", "))
	}
	for i, f := range rest {
		violations++
		rp := filepath.Join(replayDir, fmt.Sprintf("%02d_%s.json", i+1, trunc(sanitize.ReplaceAllString(f.FullName, "_"), 120)))
		cex := searchCounterexample(prop, f, *tier)
		if cex == nil || !cex.Reproduced {
			if c2 := catalogReplay(f); c2 != nil {
				cex = c2
			}
		}
		rec := map[string]interface{}{
			"property": prop, "unit": f.Unit, "function": f.Func, "obligation": f.Ob.Name, "kind": f.Ob.Kind, "at": f.Ob.Pos,
			"treatment": f.Treatment, "reason": f.Reason, "solver_answer": f.Ob.Answer, "solver": f.Ob.Solver, "smt_query": f.Ob.SMTFile,
			"counterexample": cex,
		}
		if f.Ob.SMTFile != "" {
			if b, err := os.ReadFile(f.Ob.SMTFile); err == nil && len(b) < 400000 {
				rec["smt_text"] = string(b)
			}
		}
		b, _ := json.MarshalIndent(rec, "", " ")
		os.WriteFile(rp, b, 0644)
		suffix := ""
		if cex == nil || !cex.Reproduced {
			suffix = " no-failing-input-found"
		}
		lines = append(lines, fmt.Sprintf("VIOLATION property=%s replay=%s obligation=%s at=%s%s", prop, rp, f.FullName, f.Ob.Pos, suffix))
	}
	for _, l := range lines {
		fmt.Println(l)
	}

	// ---- evidence ----
	var tb []string
	tb = append(tb, "go/packages + go/ssa (x/tools v0.29.0, NaiveForm) as the faithful extraction of /repo's current working tree (-tags verif)",
		"the govc VC generator (this repository; guarded by return covers, stand-alone vacuity check, unused-contract and frame-entry checks, must-fail selftest corpus)",
		"SMT solvers z3 4.8.12, z3 5.1.0, cvc5 1.0",
		"signed machine arithmetic treated as mathematical unless the contract says `check overflow`; unsigned and narrowing arithmetic wrap explicitly",
		"append returns a fresh backing array (in-place aliasing through spare capacity not modelled)",
		"unknown callees (no contract, no spec): result arbitrary within its type, assumed not to panic and not to modify modelled state",
		"goroutines (`go f()`), channels, select: not modelled")
	for k := range trusted {
		tb = append(tb, k)
	}
	sort.Strings(tb[7:])
	var assumptions []string
	for k := range assumedRepo {
		assumptions = append(assumptions, "contract of /repo function assumed at call sites: "+k+" — see consistency table in DESIGN.md")
	}
	sort.Strings(assumptions)
	var unm []string
	for k := range unmodelled {
		unm = append(unm, k)
	}
	sort.Strings(unm)
	if len(samples) == 0 {
		samples = append(samples, map[string]string{"note": "no discharged obligation to sample"})
	}
	ev := map[string]interface{}{
		"property_id": prop, "tier": *tier, "seed": seed, "level": "proof",
		"coverage": map[string]interface{}{
			"obligations": nOb - nKnownObs, "discharged": nDis, "covers_checked": nCover, "functions_under_contract": nFuncs,
			"obligations_generated": nOb, "known_finding_obligations": nKnownObs,
			"undischarged_unexplained": nOb - nKnownObs - nDis,
			"checker_cmd":  fmt.Sprintf("/verif/bin/govc check %s -tier %s", prop, *tier),
			"trusted_base": tb, "functions": funcsEv, "units": unitNames(mine), "by_backend": solverCount,
			"solver_time_s": round3(solveS), "load_time_s_sum": round3(loadS),
			"known_findings_seen": knownSeen, "samples": samples, "unmodelled": unm, "not_covered": notCovered,
			"explanation": "each obligation is a verification condition generated from /repo's current source for a function under contract; discharged = the negated goal is unsat. `obligations` counts the claimed obligations: those generated minus the ones recorded as open known findings (listed under known_findings_seen, each with a witness replayed on the real code in this run); every claimed obligation must be discharged",
		},
		"assumptions": append(assumptions, tb...),
		"wall_s":      round3(time.Since(t0).Seconds()),
		"violations":  violations,
	}
	os.MkdirAll(filepath.Join(outBase(), "evidence"), 0755)
	b, _ := json.MarshalIndent(ev, "", " ")
	os.WriteFile(filepath.Join(outBase(), "evidence", prop+".json"), b, 0644)
	fmt.Printf("%s: %d units, %d functions, %d obligations, %d discharged, %d covers, %d known findings, %d violations, %.1fs\n", prop, len(mine), nFuncs, nOb, nDis, nCover, len(knownSeen), violations, time.Since(t0).Seconds())
	if !*keep {
		// per-unit reports and SMT files stay under out/ (ignored by git) for replay; nothing under /tmp is needed
	}
	if violations > 0 {
		return 1
	}
	return 0
}

func unitNames(us []UnitHeader) []string {
	var out []string
	for _, u := range us {
		out = append(out, strings.TrimPrefix(unitPkg(u), "./")+":"+u.Name)
	}
	return out
}

func round3(f float64) float64 { return float64(int(f*1000+0.5)) / 1000 }

func trunc(s string, n int) string {
	if len(s) > n {
		return s[:n]
	}
	return s
}

func lastLines(s string, n int) string {
	ls := strings.Split(strings.TrimSpace(s), "\n")
	if len(ls) > n {
		ls = ls[len(ls)-n:]
	}
	return strings.Join(ls, " | ")
}

// runReplayTest injects an in-package test with -overlay (nothing is written to the repository) and runs it.
func runReplayTest(pkg, testFile, run string) (bool, string) {
	tmp, err := os.MkdirTemp("", "govc-replay")
	if err != nil {
		return false, err.Error()
	}
	defer os.RemoveAll(tmp)
	target := filepath.Join(repoDir(), pkg, "zz_govc_replay_test.go")
	ov := map[string]map[string]string{"Replace": {target: testFile}}
	b, _ := json.Marshal(ov)
	ovf := filepath.Join(tmp, "ov.json")
	os.WriteFile(ovf, b, 0644)
	args := []string{"test", "-overlay", ovf, "-vet=off", "-count=1", "-timeout", "60s"}
	if run != "" {
		args = append(args, "-run", run)
	}
	args = append(args, "./"+pkg)
	cmd := exec.Command("go", args...)
	cmd.Dir = repoDir()
	cmd.Env = append(os.Environ(), "GOFLAGS=-mod=mod", "GOPROXY=off", "GOSUMDB=off", "GOTOOLCHAIN=local")
	out, err := cmd.CombinedOutput()
	return err == nil, string(out)
}

func cmdReplay(args []string) int {
	if len(args) < 1 {
		fmt.Fprintln(os.Stderr, "usage: govc replay <replay file>")
		return 2
	}
	b, err := os.ReadFile(args[0])
	if err != nil {
		fmt.Fprintln(os.Stderr, err)
		return 2
	}
	var rec map[string]interface{}
	json.Unmarshal(b, &rec)
	fmt.Printf("property %v\nfunction %v\nobligation %v (%v) at %v\nreason: %v\n", rec["property"], rec["function"], rec["obligation"], rec["kind"], rec["at"], rec["reason"])
	if q, ok := rec["smt_text"].(string); ok {
		st, sv := race(q, 20, "")
		fmt.Printf("re-solving the recorded query: %s (%s)\n", st, sv)
	}
	if cex, ok := rec["counterexample"].(map[string]interface{}); ok && cex != nil {
		if tf, ok := cex["test_file"].(string); ok && tf != "" {
			_, out := runReplayTest(fmt.Sprint(cex["pkg"]), tf, fmt.Sprint(cex["run"]))
			fmt.Printf("replaying the counterexample on the real code (%s): reproduced=%v\n%s\n", repoDir(), strings.Contains(out, "DEFECT-REPRODUCED"), lastLines(out, 12))
		}
	}
	return 0
}

// ---------- hand-written replay adapters ----------

type adapter struct {
	ID         string `json:"id"`
	Obligation string `json:"obligation"`
	Pkg        string `json:"pkg"`
	Test       string `json:"test"`
	Run        string `json:"run"`
}

var adapterCache = map[string]*Cex{}

func catalogReplay(f failure) *Cex {
	b, err := os.ReadFile(filepath.Join(verifDir(), "replay", "catalog.json"))
	if err != nil {
		return nil
	}
	var cat struct {
		Adapters []adapter `json:"adapters"`
	}
	if json.Unmarshal(b, &cat) != nil {
		return nil
	}
	for _, a := range cat.Adapters {
		if !globMatch(a.Obligation, f.FullName) {
			continue
		}
		if c, ok := adapterCache[a.ID]; ok {
			if c != nil && c.Reproduced {
				return c
			}
			continue
		}
		tf := filepath.Join(verifDir(), a.Test)
		_, out := runReplayTest(a.Pkg, tf, a.Run)
		c := &Cex{Source: "recorded witness " + a.Test + " (hand-written replay adapter for this function) run against the real code", Pkg: a.Pkg, TestFile: tf, Run: a.Run, Output: lastLines(out, 4), Reproduced: strings.Contains(out, "DEFECT-REPRODUCED")}
		adapterCache[a.ID] = c
		if c.Reproduced {
			return c
		}
	}
	return nil
}
