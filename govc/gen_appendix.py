import re
p='/verif/DESIGN.md'
s=open(p).read()
files=[("proxy.contracts","caskethttp/proxy policies — C05 (everything discharged except the two `finds_available` clauses = findings #6, #7)"),
("rp.contracts","caskethttp/proxy `singleJoiningSlash` — C04 (13/13)"),
("limits.contracts","caskethttp/limits `maxBytesReader.Read` — C17 (`no_overflow` at `l.n+1` fails = finding #14)"),
("lim.contracts","caskethttp/limits `Limit.ServeHTTP` — C17 first matching limit (13/13)"),
("hs.contracts","caskethttp/httpserver/server.go — C17 (`strictest_read` fails = finding #13)"),
("cf.contracts","casketfile dispenser and parser — C10/C11 safety chain (124/124)"),
("vh.contracts","caskethttp/httpserver/vhosttrie.go `matchHost` — C01 (and the same shape for C06 `getConfig`) (21/21)"),
("mp.contracts","caskethttp/httpserver/vhosttrie.go `matchPath` — C01 longest path prefix via `walk`/`best` (10/10)"),
("ba.contracts","caskethttp/basicauth — C08 (`lock_balance` fails at the two error returns = finding #3)"),
("ba2.contracts","caskethttp/basicauth `BasicAuth.ServeHTTP` — C03 (54/54)"),
("repl.contracts","caskethttp/httpserver/replacer.go — C20/C19 (23/23)"),
("rec.contracts","caskethttp/httpserver/recorder.go — C20 accounting (5/5)"),
("https.contracts","caskethttp/httpserver/https.go — C15 (`inv_not_http`/`source_not_http_port` fails = finding #4)"),
("tls.contracts","caskettls `MakeTLSConfig` — C06 (44/44)"),
("misc.contracts","caskethttp/gzip — C18 (`already_encoded` fails = finding #8)"),
("fcgi.contracts","caskethttp/fastcgi — C13 (`slice@261` in `writePairs` fails = finding #2)"),
("ed.contracts","package casket `executeDirectives` — C09 ordering with ghost `lastDir` (19/19)"),
("srv.contracts","caskethttp/httpserver `(*Server).ServeHTTP` — C12, normal path and the recovered-panic path (11/11)"),
("sf.contracts","caskethttp/staticfiles `serveFile` — C02 sink obligation (`sink_not_hidden` fails on the precompressed-sibling path = finding #11; 21/22)"),
("chc.contracts","caskethttp/httpserver `clientHelloConn.Read` — C19 buffer invariant with a ghost length for `bytes.Buffer` (`buffer_invariant` fails at the second need-more-bytes return = finding #9; 12/13)"),
("lc.contracts","package casket lifecycle — C16 sequential core: `ShutdownCallbacks` (15/15), `startWithListenerFds` callback order (23/23)"),
("px.contracts","caskethttp/proxy `Proxy.ServeHTTP` — in-flight counter restored on every exit incl. the panic edge (C05; the sequential core of C14) (13/13)"),
("eh.contracts","caskethttp/errors `ErrorHandler.ServeHTTP` — C12 wrapper protocol with ghost writer state, deferred `recovery` as a `recovers` callee, callee `ensures_on_panic` (29/29)"),
("tp.contracts","caskethttp/templates `Templates.ServeHTTP` — C12 buffering wrapper (`H1_written_or_forwarded` fails at the `(0, err)` return = finding #17; 19/20)"),
("in.contracts","caskethttp/internalsrv `Internal.ServeHTTP` — C03 protected prefix never reaches `Next`; redirect loop bounded (14/14)"),
("gz.contracts","caskethttp/gzip `ResponseFilterWriter.WriteHeader/Write` — C18: gzip bytes only after `Content-Encoding: gzip` was announced, raw bytes only when it was not (19/19)"),
("br.contracts","caskethttp/browse `Browse.ServeHTTP` — C02 redirect sink (`redirect_same_origin` fails = finding #21; 7/8; with the `//`-trimming loop added on a scratch copy and the invariant `u.Path[0] == '/' && u.Path[len(u.Path)-1] != '/'`, variant `len(u.Path)`, and byte-level specs of `strings.HasPrefix/TrimPrefix`: 11/11)"),
("mt.contracts","caskethttp/httpserver `(*vhostTrie).Match` — C01: own host first, else the first fallback host in list order; `(nil, \"\")` when the path does not match under the chosen host (21/21)"),
("sh.contracts","caskethttp/httpserver `(*Server).serveHTTP` — C01/C06: no site ⇒ `WriteSiteNotFound` once, no handler, returns 0; strict SNI/Host mismatch ⇒ the site's chain is not run (41/41)"),
("lg.contracts","caskethttp/log `Logger.ServeHTTP` — C20: one line per non-excepted log of the first matching rule (counting spec function `cnt`), status ≥ 400 consumed, the error body goes through the recorder (`arg0 == responseRecorder`); `line_on_panic` fails = finding #22 (32/33)"),
("ea.contracts","caskethttp/httpserver `enableAutoHTTPS`, `markQualifiedForAutoHTTPS` — C15 (60/60, 27/27)"),
("qm.contracts","caskettls `QualifiesForManagedTLS` — C15, the qualification conjunction (9/9)"),
("gc.contracts","caskettls `configGroup.getConfig` — C06 SNI lookup order (37/37)"),
("mh.contracts","caskethttp/proxy `mutateHeadersByRules` — C04 frame of the header rules (20/20)"),
("ch.contracts","caskethttp/httpserver `parseRawClientHello` — C19: no run-time check can fail on any byte string, all three loops terminate, every return reachable (62/62)"),
("dl.contracts","caskethttp/browse `directoryListing` — C02: no hidden entry is listed (8/8)"),
("sa.contracts","caskethttp/browse archive walk closure `ServeArchive$2` — C02 (`archive_sink_not_hidden` fails = finding #10; 5/6)"),
("sr.contracts","caskethttp/fastcgi `(*streamReader).Read` — C13 (9/9)"),
("ss.contracts","package casket `startServers` — C08 (restricted to a fresh start: no inherited descriptors; `no_listener_leak` fails at the two error returns = finding #12; `all_listening` proves)"),
("lx.contracts","casketfile `(*lexer).next` — C10: every iteration consumes a rune (variant = ghost `remaining` supplied by the assumed `ReadRune` spec), so the lexer terminates on every finite input (29/29)"),
("gzs.contracts","caskethttp/gzip `Gzip.ServeHTTP` — C12/C18: `Next` called exactly once on every path, a status ≥ 400 is turned into one plain error body and 0, pass-through without `gzip` in `Accept-Encoding` (22/22)"),
("su.contracts","caskethttp/proxy `(*staticUpstream).Select` — C05 composition: with the `Policy.Select` interface contract (called only with ≥ 2 hosts of which one is available; must return an available one) the upstream returns nil only if no host is available (19/19). The interface clause `finds_available` is what every built-in policy then owes — and what `RoundRobin` and the hashing policies fail (findings #6, #7)"),
("pm.contracts","caskethttp/httpserver `Path.Matches` — C03: the matcher is exactly \"prefix of the normalised path\" (`norm(x) = Clean(x)` plus the trailing slash of `x`), case-folded unless `CaseSensitivePath` (9/9)"),
("cu.contracts","caskethttp/proxy `createUpstreamRequest` — C04 header algebra over `http.Header` as a map with typed key quantifiers (`loop2_inv2` fails = finding #20a, `connection_all_values` fails = finding #20b; 40/42)")]
out=["## Appendix A′ — contracts already machine-checked by the prototype (verbatim)\n",
"These are the exact texts the contract-mode prototype (§2.9) was run with on the\nunchanged tree; every clause not marked as a finding discharged. They supersede\nthe corresponding sketches of Appendix A and will be moved as they are into the\n`contracts_verif.go` / `/verif/specs/` files. (`result0`, `result1` name the\nresults of a multi-result function; `ret(i, call)` the *i*-th result of a pure\nmulti-result call; `#iN` the progress index of range loop *N*; `axiom name (…)`\nis a manual axiom instantiated only by `loop N use name(args)`.) `modifies`\nclauses in these texts were trusted, not yet checked (§2.9 item 14).\n"]
for f,title in files:
    txt=open('/root/govc-proto/'+f).read().rstrip('\n')
    txt="\n".join(l for l in txt.split("\n") if "lockonly" not in l)
    out.append(f"\n**{title}**\n\n```go\n{txt}\n```\n")
block="\n".join(out)
a=s.index("## Appendix A′ — contracts already machine-checked")
b=s.index("## Appendix A — first-draft contract text")
sep="\n---------------------------------------------------------------------------\n\n"
s=s[:a]+block+sep+s[b:]
open(p,'w').write(s)
print("appendix regenerated")
