package main

import (
	"bytes"
	"fmt"
	"go/ast"
	"go/printer"
	"go/token"
	"go/types"
	"strings"

	"golang.org/x/tools/go/ssa"
)

// Executable postconditions (replay oracle for failed `ensures` obligations).
//
// A postcondition written only with parameters, results, literals, operators, len, indexing/slicing, field selection,
// calls of real Go functions/methods and BOUNDED quantifiers is itself a Go expression: it can be evaluated on the real
// function's result for the solver's inputs. Such a clause is printed as Go source here; the replay test calls the
// function with the model's arguments and reports DEFECT-REPRODUCED when the clause evaluates to false. Clauses that use
// old(), ghosts, spec functions, defines, heap predicates (has, unchanged, …) or unbounded quantifiers have no such
// form: for those the report keeps `no-failing-input-found`. A clause that does not compile as Go (mathematical
// integers vs. machine types) simply yields no oracle. The oracle never makes a check pass; it only adds a witness to
// an obligation that has already failed.

var oracleForbidden = map[string]bool{"has": true, "unchanged": true, "unchanged_except": true, "forallT": true, "existsT": true,
	"ret": true, "is": true, "held": true, "panicking": true, "wit": true, "callee": true}

// OracleSrc is an executable postcondition: Pre are statements run BEFORE the call (they save the values of old(…)
// sub-expressions), Expr is the Go condition evaluated after it.
type OracleSrc struct {
	Pre  []string `json:"pre,omitempty"`
	Expr string   `json:"expr"`
}

// goOracle returns the Go source of clause e for function f (parameters under their own names, results r0, r1, …), or nil.
func goOracle(f *ssa.Function, e ast.Expr) *OracleSrc {
	ok := true
	var pre []string
	inOld := false
	params := map[string]bool{}
	for _, p := range f.Params {
		params[p.Name()] = true
	}
	res := f.Signature.Results()
	var tr func(x ast.Expr) ast.Expr
	bound := map[string]bool{}
	subst := map[string]ast.Expr{} // parameters of a `define` being expanded -> (already translated) argument
	depth := 0
	tr = func(x ast.Expr) ast.Expr {
		if !ok || x == nil {
			return x
		}
		switch n := x.(type) {
		case *ast.ParenExpr:
			return &ast.ParenExpr{X: tr(n.X)}
		case *ast.BasicLit:
			return n
		case *ast.Ident:
			name := n.Name
			if a, isSub := subst[name]; isSub && !bound[name] {
				return &ast.ParenExpr{X: a}
			}
			switch {
			case bound[name] || params[name] || name == "true" || name == "false" || name == "nil":
				return n
			case name == "result":
				if inOld {
					ok = false
				}
				return ast.NewIdent("r0")
			case len(name) == 7 && strings.HasPrefix(name, "result") && name[6] >= '0' && name[6] <= '9':
				return ast.NewIdent("r" + name[6:])
			case strings.HasPrefix(name, "__"):
				ok = false
				return n
			}
			if ghostInts[name] {
				ok = false
				return n
			}
			for i := 0; i < res.Len(); i++ {
				if res.At(i).Name() == name {
					return ast.NewIdent(fmt.Sprintf("r%d", i))
				}
			}
			// package-level object of the function's package (constant, variable, function, type)
			if f.Pkg != nil && f.Pkg.Pkg.Scope().Lookup(name) != nil {
				return n
			}
			if types.Universe.Lookup(name) != nil {
				return n
			}
			ok = false // a local of the function, a define, a spec function …
			return n
		case *ast.SelectorExpr:
			if id, isId := n.X.(*ast.Ident); isId && !params[id.Name] && !bound[id.Name] && f.Pkg != nil {
				// qualified identifier pkg.Name: fine when the package is imported by the function's package
				for _, imp := range f.Pkg.Pkg.Imports() {
					if imp.Name() == id.Name {
						return n
					}
				}
			}
			return &ast.SelectorExpr{X: tr(n.X), Sel: n.Sel}
		case *ast.UnaryExpr:
			return &ast.UnaryExpr{Op: n.Op, X: tr(n.X)}
		case *ast.BinaryExpr:
			return &ast.BinaryExpr{X: tr(n.X), Op: n.Op, Y: tr(n.Y)}
		case *ast.IndexExpr:
			return &ast.IndexExpr{X: tr(n.X), Index: tr(n.Index)}
		case *ast.SliceExpr:
			return &ast.SliceExpr{X: tr(n.X), Low: tr(n.Low), High: tr(n.High)}
		case *ast.StarExpr:
			return &ast.StarExpr{X: tr(n.X)}
		case *ast.CallExpr:
			if id, isId := n.Fun.(*ast.Ident); isId {
				if oracleForbidden[id.Name] || ghostFns[id.Name] {
					ok = false
					return n
				}
				if _, isSpec := specFuncs[id.Name]; isSpec {
					ok = false
					return n
				}
				if df, isDef := defines[id.Name]; isDef {
					// a define is a macro: its body with the (translated) arguments in place of its parameters
					if depth > 6 || len(n.Args) != len(df.Params) {
						ok = false
						return n
					}
					saved := map[string]ast.Expr{}
					var args []ast.Expr
					for _, a := range n.Args {
						args = append(args, tr(a))
					}
					for i, b := range df.Params {
						saved[b.Name] = subst[b.Name]
						subst[b.Name] = args[i]
					}
					depth++
					body := tr(df.Body)
					depth--
					for k, v := range saved {
						if v == nil {
							delete(subst, k)
						} else {
							subst[k] = v
						}
					}
					return &ast.ParenExpr{X: body}
				}
				switch id.Name {
				case "old":
					// old(e): e evaluated before the call and kept in a variable of the test
					if len(n.Args) != 1 || inOld {
						ok = false
						return n
					}
					if bt := staticType(f, n.Args[0]); bt == nil {
						ok = false // only values of basic types are snapshotted (a slice or pointer would alias what the call mutates)
						return n
					} else if _, isBasic := bt.Underlying().(*types.Basic); !isBasic {
						ok = false
						return n
					}
					inOld = true
					inner := tr(n.Args[0])
					inOld = false
					if !ok {
						return n
					}
					var b bytes.Buffer
					printer.Fprint(&b, token.NewFileSet(), inner)
					v := fmt.Sprintf("govcOld%d", len(pre))
					pre = append(pre, fmt.Sprintf("%s := %s", v, b.String()))
					return ast.NewIdent(v)
				case "implies":
					if len(n.Args) != 2 {
						ok = false
						return n
					}
					return &ast.ParenExpr{X: &ast.BinaryExpr{X: &ast.UnaryExpr{Op: token.NOT, X: &ast.ParenExpr{X: tr(n.Args[0])}}, Op: token.LOR, Y: &ast.ParenExpr{X: tr(n.Args[1])}}}
				case "forall", "exists":
					if len(n.Args) != 4 {
						ok = false
						return n
					}
					v, isV := n.Args[0].(*ast.Ident)
					if !isV {
						ok = false
						return n
					}
					lo, hi := tr(n.Args[1]), tr(n.Args[2])
					was := bound[v.Name]
					bound[v.Name] = true
					body := tr(n.Args[3])
					bound[v.Name] = was
					if !ok {
						return n
					}
					var buf bytes.Buffer
					pr := func(x ast.Expr) string {
						buf.Reset()
						printer.Fprint(&buf, token.NewFileSet(), x)
						return buf.String()
					}
					los, his, bs := pr(lo), pr(hi), pr(body)
					var src string
					if id.Name == "forall" {
						src = fmt.Sprintf("func() bool { for %s := int(%s); %s < int(%s); %s++ { if !(%s) { return false } }; return true }()", v.Name, los, v.Name, his, v.Name, bs)
					} else {
						src = fmt.Sprintf("func() bool { for %s := int(%s); %s < int(%s); %s++ { if %s { return true } }; return false }()", v.Name, los, v.Name, his, v.Name, bs)
					}
					return ast.NewIdent(src) // printed verbatim
				}
			}
			c := &ast.CallExpr{Fun: tr(n.Fun), Ellipsis: n.Ellipsis}
			for _, a := range n.Args {
				c.Args = append(c.Args, tr(a))
			}
			return c
		}
		ok = false
		return x
	}
	out := tr(e)
	if !ok {
		return nil
	}
	var buf bytes.Buffer
	if err := printer.Fprint(&buf, token.NewFileSet(), out); err != nil {
		return nil
	}
	return &OracleSrc{Pre: pre, Expr: buf.String()}
}

// oraclesFor collects the executable postconditions of f's contract: label -> Go source.
func oraclesFor(f *ssa.Function, ctr *Contract) map[string]*OracleSrc {
	if ctr == nil || f.Parent() != nil {
		return nil
	}
	out := map[string]*OracleSrc{}
	for _, e := range ctr.Ensures {
		if s := goOracle(f, e.Expr); s != nil {
			out[e.Label] = s
		}
	}
	if len(out) == 0 {
		return nil
	}
	return out
}

// staticType: the Go type of a clause sub-expression built from parameters, field selections, indexing and len (nil if unknown).
func staticType(f *ssa.Function, x ast.Expr) types.Type {
	switch n := x.(type) {
	case *ast.ParenExpr:
		return staticType(f, n.X)
	case *ast.Ident:
		for _, p := range f.Params {
			if p.Name() == n.Name {
				return p.Type()
			}
		}
	case *ast.SelectorExpr:
		t := staticType(f, n.X)
		if t == nil {
			return nil
		}
		if pt, ok := t.Underlying().(*types.Pointer); ok {
			t = pt.Elem()
		}
		if obj, _, _ := types.LookupFieldOrMethod(t, true, f.Pkg.Pkg, n.Sel.Name); obj != nil {
			if v, ok := obj.(*types.Var); ok {
				return v.Type()
			}
		}
	case *ast.IndexExpr:
		t := staticType(f, n.X)
		if t == nil {
			return nil
		}
		switch u := t.Underlying().(type) {
		case *types.Slice:
			return u.Elem()
		case *types.Array:
			return u.Elem()
		case *types.Map:
			return u.Elem()
		case *types.Basic:
			if u.Info()&types.IsString != 0 {
				return types.Typ[types.Byte]
			}
		}
	case *ast.CallExpr:
		if id, ok := n.Fun.(*ast.Ident); ok && (id.Name == "len" || id.Name == "cap") {
			return types.Typ[types.Int]
		}
	}
	return nil
}
