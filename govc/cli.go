// govc: contract-based deductive verifier for Go functions (VC generation over go/ssa NaiveForm, SMT back ends).
//
//	govc unit  -file <contracts file> [-unit <name>] [-filter <re>] [-pkg <dir>] [-json out] [-smtdir dir] [-tier quick|thorough]
//	govc check <property id> [-tier quick|thorough]          (driver.go)
//	govc run   <contracts file> <func-regexp> <packages...>   (development: whole file is one unit, text output)
package main

import (
	"go/ast"
	"go/token"
	"strconv"
	"go/types"
	"runtime/debug"
	"encoding/json"
	"flag"
	"fmt"
	"os"
	"path/filepath"
	"regexp"
	"sort"
	"strings"
	"time"

	"golang.org/x/tools/go/packages"
	"golang.org/x/tools/go/ssa"
	"golang.org/x/tools/go/ssa/ssautil"
)

type ObReport struct {
	Name    string `json:"name"`
	Kind    string `json:"kind"`
	Pos     string `json:"pos"`
	Status  string `json:"status"` // discharged | undischarged | dead-path | reachable | vacuous | solver-disagreement
	Answer  string `json:"answer"` // raw solver answer
	Solver  string `json:"solver"`
	SMTFile string `json:"smt_file,omitempty"`
	Clause  string `json:"clause,omitempty"`
}

type FuncReport struct {
	Name        string     `json:"name"`
	Treatment   string     `json:"treatment"` // full | sweep
	Obligations []ObReport `json:"obligations"`
	Notes       []string   `json:"notes,omitempty"`
	SpecErrors  []string   `json:"spec_errors,omitempty"`
	Vacuous     bool       `json:"vacuous,omitempty"`
	GenPanic    string     `json:"gen_panic,omitempty"`
	CexPlan     *CexPlan   `json:"cex_plan,omitempty"` // how to turn a model of a failed obligation into a call of the real function
	SolveS      float64    `json:"solve_s"`
	GenS        float64    `json:"gen_s"`
}

type UnitReport struct {
	Unit            string            `json:"unit"`
	File            string            `json:"file"`
	Pkg             string            `json:"pkg"`
	Filter          string            `json:"filter"`
	Attrs           map[string]string `json:"attrs"`
	LoadS           float64           `json:"load_s"`
	Functions       []FuncReport      `json:"functions"`
	UnusedContracts []string          `json:"unused_contracts,omitempty"`
	Externs         []string          `json:"externs,omitempty"`
	Assumed         []string          `json:"assumed_repo_contracts,omitempty"` // contracts on /repo functions used at call sites but not verified in this unit
	Proved          []string          `json:"proved_contracts,omitempty"`
	ContractText    map[string]string `json:"contract_text,omitempty"` // normalised clause text per contract (cross-unit consistency)
	Excluded        []string          `json:"excluded_functions,omitempty"` // in the unit's files but not claimed (residual imprecision): listed, never counted
	Error           string            `json:"error,omitempty"`
	FieldMode       bool              `json:"field_mode"`
	FrameCheck      bool              `json:"frame_check"`
}

func repoDir() string {
	if d := os.Getenv("VERIF_REPO"); d != "" {
		return d
	}
	return "/repo"
}

func loadProgram(pkgPatterns []string) (*ssa.Program, []*ssa.Package, float64, error) {
	mode := packages.NeedName | packages.NeedFiles | packages.NeedCompiledGoFiles | packages.NeedImports | packages.NeedTypes | packages.NeedTypesSizes | packages.NeedSyntax | packages.NeedTypesInfo | packages.NeedDeps
	cfg := &packages.Config{Mode: mode, Dir: repoDir(), Tests: false, BuildFlags: []string{"-tags=verif"}}
	cfg.Env = append(os.Environ(), "GOFLAGS=-mod=mod", "GOPROXY=off", "GOSUMDB=off", "GOTOOLCHAIN=local")
	t0 := time.Now()
	pkgs, err := packages.Load(cfg, pkgPatterns...)
	if err != nil {
		return nil, nil, 0, err
	}
	nerr := 0
	var firstErr string
	packages.Visit(pkgs, nil, func(p *packages.Package) {
		for _, e := range p.Errors {
			nerr++
			if firstErr == "" {
				firstErr = e.Error()
			}
		}
	})
	if nerr > 0 {
		return nil, nil, 0, fmt.Errorf("%d package errors, first: %s", nerr, firstErr)
	}
	prog, spkgs := ssautil.Packages(pkgs, ssa.NaiveForm|ssa.GlobalDebug)
	prog.Build()
	nameFset = prog.Fset
	for _, p := range pkgs {
		for i, f := range p.Syntax {
			if i < len(p.CompiledGoFiles) {
				syntaxByFile[p.CompiledGoFiles[i]] = f
			}
		}
	}
	return prog, spkgs, time.Since(t0).Seconds(), nil
}

func contractTextOf(c *Contract) string {
	var sb strings.Builder
	if c.Pure {
		sb.WriteString("pure reads " + strings.Join(c.Reads, ",") + "\n")
	}
	if c.MayPanic {
		sb.WriteString("may_panic\n")
	}
	if c.Recovers {
		sb.WriteString("recovers\n")
	}
	m := append([]string{}, c.Modifies...)
	sort.Strings(m)
	sb.WriteString("modifies " + strings.Join(m, ",") + "\n")
	for _, r := range c.Requires {
		sb.WriteString("requires " + strings.Join(strings.Fields(r.Text), " ") + "\n")
	}
	for _, r := range c.Ensures {
		sb.WriteString("ensures " + strings.Join(strings.Fields(r.Text), " ") + "\n")
	}
	for _, r := range c.EnsuresOnPanic {
		sb.WriteString("ensures_on_panic " + strings.Join(strings.Fields(r.Text), " ") + "\n")
	}
	return sb.String()
}

// inUnit is set by runUnit: membership in the verified set of the current unit.
var inUnit = func(f *ssa.Function) bool { return false }

// runUnit verifies every function of pkg matching filter against the contracts of one unit.
func runUnit(file, unit, filterS, pkg string, attrs map[string]string, smtdir string, text bool) UnitReport {
	rep := UnitReport{Unit: unit, File: file, Pkg: pkg, Filter: filterS, Attrs: attrs, FieldMode: fieldMode, FrameCheck: os.Getenv("GOVC_FRAME") != "", ContractText: map[string]string{}}
	filter, err := regexp.Compile(filterS)
	if err != nil {
		rep.Error = "bad filter: " + err.Error()
		return rep
	}
	all, err := parseContracts(file, unit)
	if err != nil {
		rep.Error = "contract parse error: " + err.Error()
		return rep
	}
	prog, spkgs, loadS, err := loadProgram([]string{pkg})
	if err != nil {
		rep.Error = "load error: " + err.Error()
		return rep
	}
	rep.LoadS = loadS
	used := map[string]bool{}
	verified := map[string]bool{}
	// inUnit: the function is among those this unit verifies (filter, files=, exclude=)
	inUnit = func(f *ssa.Function) bool {
		if !filter.MatchString(f.String()) {
			return false
		}
		if fl := attrs["files"]; fl != "" {
			base := filepath.Base(prog.Fset.Position(f.Pos()).Filename)
			okf := false
			for _, x := range strings.Split(fl, ",") {
				if x == base {
					okf = true
				}
			}
			if !okf {
				return false
			}
		}
		if ex := attrs["exclude"]; ex != "" {
			if m, _ := regexp.MatchString(ex, f.String()); m {
				return false
			}
		}
		return true
	}
	for _, p := range spkgs {
		if p == nil {
			continue
		}
		for _, f := range allFuncs(prog, p) {
			short := f.RelString(f.Pkg.Pkg)
			if !filter.MatchString(f.String()) {
				continue
			}
			if fl := attrs["files"]; fl != "" {
				base := filepath.Base(prog.Fset.Position(f.Pos()).Filename)
				okf := false
				for _, x := range strings.Split(fl, ",") {
					if x == base {
						okf = true
					}
				}
				if !okf {
					continue
				}
			}
			if ex := attrs["exclude"]; ex != "" {
				if m, _ := regexp.MatchString(ex, f.String()); m {
					rep.Excluded = append(rep.Excluded, p.Pkg.Name()+"."+short)
					continue
				}
			}
			ctr := all[short]
			if ctr == nil {
				ctr = all[f.String()]
			}
			if ctr != nil {
				used[ctr.Func] = true
				if ctr.Pure && len(ctr.Ensures) == 0 && attrs["verify_pure"] != "on" {
					continue
				}
				verified[ctr.Func] = true
			}
			fr := FuncReport{Name: p.Pkg.Name() + "." + short, Treatment: "sweep"}
			if ctr != nil {
				fr.Treatment = "full"
			}
			g := &Gen{w: newWorld(prog), f: f, ctr: ctr, all: all, vals: map[ssa.Value]Term{}, addrs: map[ssa.Value]Addr{}, extr: map[string]Term{}, escaping: computeEscaping(f), params: map[string]*ssa.Parameter{}}
			for _, prm := range f.Params {
				registerStruct(prm.Type())
			}
			t0 := time.Now()
			func() {
				defer func() {
					if r := recover(); r != nil {
						fr.GenPanic = fmt.Sprint(r)
						if os.Getenv("GOVC_DEBUG") != "" {
							fmt.Fprintf(os.Stderr, "%s\n", debug.Stack())
						}
					}
				}()
				g.run()
				g.checkAtCallUsed()
			}()
			fr.GenS = time.Since(t0).Seconds()
			fr.CexPlan = cexPlanFor(g)
			stabiliseNames(g.obs)
			// events hold copies of the obligations: refresh their names too (only used for dumps)
			t1 := time.Now()
			res, vacuous := solve(g, fr.Name)
			fr.SolveS = time.Since(t1).Seconds()
			fr.Vacuous = vacuous
			for _, r := range res {
				or := ObReport{Name: r.ob.Name, Kind: r.ob.Kind, Pos: fmt.Sprintf("%s:%d", relPath(r.ob.Pos.Filename), r.ob.Pos.Line), Answer: r.status, Solver: r.solver}
				switch {
				case r.status == "unsat":
					or.Status = "discharged"
				case r.status == "reachable" || r.status == "dead-path" || r.status == "vacuous" || r.status == "solver-disagreement":
					or.Status = r.status
				default:
					or.Status = "undischarged"
				}
				if r.smt != "" && smtdir != "" && or.Status != "reachable" {
					dir := filepath.Join(smtdir, sanitize.ReplaceAllString(unit, "_"))
					os.MkdirAll(dir, 0755)
					fn := filepath.Join(dir, sanitize.ReplaceAllString(fr.Name+"__"+r.ob.Name, "_")+".smt2")
					if len(fn) > 200 {
						fn = fn[:200] + ".smt2"
					}
					hdr := fmt.Sprintf("; obligation %s/%s (%s) at %s\n; negated goal: unsat = discharged\n", fr.Name, r.ob.Name, r.ob.Kind, or.Pos)
					os.WriteFile(fn, []byte(hdr+r.smt), 0644)
					or.SMTFile = fn
				}
				fr.Obligations = append(fr.Obligations, or)
			}
			for _, n := range g.notes {
				if strings.HasPrefix(n, "spec error") || strings.HasPrefix(n, "solver error") {
					fr.SpecErrors = append(fr.SpecErrors, n)
				} else {
					fr.Notes = append(fr.Notes, n)
				}
			}
			rep.Functions = append(rep.Functions, fr)
			if text {
				printFuncText(fr)
			}
		}
	}
	// contracts on constant string tables (decided by reading the composite literal in the syntax tree)
	for _, tb := range tableContracts {
		fr := FuncReport{Name: "table:" + tb.Var, Treatment: "full"}
		var elems []string
		found := false
		dir := filepath.Dir(file)
		for fname, af := range syntaxByFile {
			if filepath.Dir(fname) != dir {
				continue
			}
			for _, d := range af.Decls {
				gd, ok := d.(*ast.GenDecl)
				if !ok || gd.Tok != token.VAR {
					continue
				}
				for _, sp := range gd.Specs {
					vs, ok := sp.(*ast.ValueSpec)
					if !ok {
						continue
					}
					for i, nm := range vs.Names {
						if nm.Name != tb.Var || i >= len(vs.Values) {
							continue
						}
						if cl, ok := vs.Values[i].(*ast.CompositeLit); ok {
							found = true
							for _, e := range cl.Elts {
								if bl, ok := e.(*ast.BasicLit); ok && bl.Kind == token.STRING {
									if v, err := strconv.Unquote(bl.Value); err == nil {
										elems = append(elems, v)
										continue
									}
								}
								elems = append(elems, "\x00<not a string literal>")
							}
						}
					}
				}
			}
		}
		ob := ObReport{Name: "order[" + strings.Join(tb.Order, "<") + "]", Kind: "table", Status: "discharged", Answer: "unsat", Solver: "go/ast literal"}
		if !found {
			ob.Status, ob.Answer = "undischarged", "no package-level composite literal named "+tb.Var
		} else {
			last := -1
			for _, want := range tb.Order {
				idx, cnt := -1, 0
				for i, e := range elems {
					if e == want {
						idx = i
						cnt++
					}
				}
				if cnt != 1 {
					ob.Status, ob.Answer = "undischarged", fmt.Sprintf("%q occurs %d times in %s", want, cnt, tb.Var)
					break
				}
				if idx <= last {
					ob.Status, ob.Answer = "undischarged", fmt.Sprintf("%q (entry %d) does not come after the entries listed before it", want, idx)
					break
				}
				last = idx
			}
		}
		fr.Obligations = append(fr.Obligations, ob)
		rep.Functions = append(rep.Functions, fr)
		if text {
			printFuncText(fr)
		}
	}
	// contracts on method sets (decided with go/types)
	for _, tc := range typeContracts {
		fr := FuncReport{Name: "type:" + tc.Type, Treatment: "full"}
		var found types.Type
		for _, p := range spkgs {
			if p == nil {
				continue
			}
			if obj := p.Pkg.Scope().Lookup(tc.Type); obj != nil {
				if _, ok := obj.(*types.TypeName); ok {
					found = obj.Type()
				}
			}
		}
		if found == nil {
			fr.Obligations = append(fr.Obligations, ObReport{Name: "type_exists", Kind: "types", Status: "undischarged", Answer: "no such type", Solver: "go/types"})
		} else {
			ms := types.NewMethodSet(types.NewPointer(found))
			allowed := map[string]bool{}
			for _, a := range tc.Allowed {
				allowed[a] = true
			}
			var extra []string
			for i := 0; i < ms.Len(); i++ {
				sel := ms.At(i)
				if len(sel.Index()) > 1 && !allowed[sel.Obj().Name()] {
					extra = append(extra, sel.Obj().Name())
				}
			}
			ob := ObReport{Name: "promoted_methods_within_contract", Kind: "types", Status: "discharged", Answer: "unsat", Solver: "go/types"}
			if len(extra) > 0 {
				ob.Status, ob.Answer = "undischarged", "promoted onto the type but not in its contract: "+strings.Join(extra, ", ")
			}
			fr.Obligations = append(fr.Obligations, ob)
			if tc.HasDeclared {
				decl := map[string]bool{}
				for _, a := range tc.Declared {
					decl[a] = true
				}
				var more []string
				for i := 0; i < ms.Len(); i++ {
					sel := ms.At(i)
					if len(sel.Index()) == 1 && !decl[sel.Obj().Name()] {
						more = append(more, sel.Obj().Name())
					}
				}
				ob2 := ObReport{Name: "declared_methods_within_contract", Kind: "types", Status: "discharged", Answer: "unsat", Solver: "go/types"}
				if len(more) > 0 {
					ob2.Status, ob2.Answer = "undischarged", "declared on the type but not in its contract: "+strings.Join(more, ", ")
				}
				fr.Obligations = append(fr.Obligations, ob2)
			}
		}
		rep.Functions = append(rep.Functions, fr)
		if text {
			printFuncText(fr)
		}
	}
	for name, c := range all {
		if name != c.Func {
			continue
		}
		rep.ContractText[c.Func] = contractTextOf(c)
		switch {
		case !usedContracts[c.Func] && !used[c.Func] && importedContracts[c.Func] != "":
			// an imported contract this unit does not need
		case !usedContracts[c.Func] && !used[c.Func] && c.Watch:
			// a watch contract: absence of the watched call is the normal case
		case !usedContracts[c.Func] && !used[c.Func]:
			rep.UnusedContracts = append(rep.UnusedContracts, name)
		case externContracts[c.Func] && importedContracts[c.Func] == "":
			rep.Externs = append(rep.Externs, name)
		case importedContracts[c.Func] != "":
			rep.Assumed = append(rep.Assumed, name+" [imported from "+importedContracts[c.Func]+"]")
		case verified[c.Func]:
			rep.Proved = append(rep.Proved, name)
		default:
			rep.Assumed = append(rep.Assumed, name)
		}
	}
	sort.Strings(rep.UnusedContracts)
	sort.Strings(rep.Externs)
	sort.Strings(rep.Assumed)
	sort.Strings(rep.Proved)
	return rep
}

func relPath(p string) string {
	if r, err := filepath.Rel(repoDir(), p); err == nil && !strings.HasPrefix(r, "..") {
		return r
	}
	return p
}

func printFuncText(fr FuncReport) {
	ok := 0
	for _, o := range fr.Obligations {
		if o.Status == "discharged" || o.Status == "reachable" {
			ok++
		}
	}
	fmt.Printf("== %s [%s] %d obligations, %d ok, gen %.2fs solve %.2fs\n", fr.Name, fr.Treatment, len(fr.Obligations), ok, fr.GenS, fr.SolveS)
	if fr.GenPanic != "" {
		fmt.Println("   GEN PANIC:", fr.GenPanic)
	}
	if fr.Vacuous {
		fmt.Println("   VACUOUS CONTEXT")
	}
	for _, o := range fr.Obligations {
		if o.Status == "discharged" || o.Status == "reachable" {
			if os.Getenv("GOVC_VERBOSE") != "" {
				fmt.Printf("   ok      %-10s %-50s %s\n", o.Kind, o.Name, o.Solver)
			}
			continue
		}
		fmt.Printf("   FAILED  %-10s %-50s %s (%s)\n", o.Kind, o.Name, o.Pos, o.Answer)
	}
	for _, e := range fr.SpecErrors {
		fmt.Println("   SPEC ERROR:", e)
	}
	if os.Getenv("GOVC_VERBOSE") != "" {
		for _, n := range fr.Notes {
			fmt.Println("   note:", n)
		}
	}
}

func main() {
	if len(os.Args) < 2 {
		fmt.Fprintln(os.Stderr, "usage: govc unit|check|run|replay|selftest ...")
		os.Exit(2)
	}
	switch os.Args[1] {
	case "unit":
		fs := flag.NewFlagSet("unit", flag.ExitOnError)
		file := fs.String("file", "", "contracts file")
		unit := fs.String("unit", "", "unit name")
		filterS := fs.String("filter", "", "function regexp (default: the unit's filter attribute)")
		pkg := fs.String("pkg", "", "package pattern relative to the repository (default: directory of the contracts file)")
		jsonOut := fs.String("json", "", "write the unit report here")
		smtdir := fs.String("smtdir", "", "directory for stand-alone queries of undischarged obligations")
		tier := fs.String("tier", "quick", "quick|thorough")
		known := fs.String("known", "", "file listing obligations of open known findings, one per line")
		text := fs.Bool("text", false, "print text report")
		fs.Parse(os.Args[2:])
		attrs := map[string]string{}
		if *unit != "" {
			us, err := listUnits(*file)
			if err != nil {
				fmt.Fprintln(os.Stderr, err)
				os.Exit(2)
			}
			for _, u := range us {
				if u.Name == *unit {
					attrs = u.Attrs
				}
			}
		}
		if *filterS == "" {
			*filterS = attrs["filter"]
		}
		if *pkg == "" {
			if attrs["pkg"] != "" {
				*pkg = attrs["pkg"]
			} else if rel, err := filepath.Rel(repoDir(), filepath.Dir(*file)); err == nil {
				*pkg = "./" + rel
			}
		}
		if attrs["frames"] == "on" {
			os.Setenv("GOVC_FRAME", "1")
		}
		if attrs["nilchecks"] == "on" {
			nilFieldObs, sweepNil = true, true
		}
		if attrs["dispenser_variants"] == "on" {
			autoDispenserVariants = true
		}
		if attrs["nonnil_params"] == "on" {
			assumeNonNilParams = true
		}
		if attrs["havoc_unknown"] == "on" {
			os.Setenv("GOVC_HAVOC_UNKNOWN", "1")
		}
		applyTier(*tier)
		if *known != "" {
			if b, err := os.ReadFile(*known); err == nil {
				for _, l := range strings.Split(string(b), "\n") {
					if l = strings.TrimSpace(l); l != "" {
						knownObligations[l] = true
					}
				}
			}
		}
		rep := runUnit(*file, *unit, *filterS, *pkg, attrs, *smtdir, *text)
		if *jsonOut != "" {
			b, _ := json.MarshalIndent(rep, "", " ")
			os.WriteFile(*jsonOut, b, 0644)
		}
		if rep.Error != "" {
			fmt.Fprintln(os.Stderr, "ERROR:", rep.Error)
			os.Exit(2)
		}
		if *text {
			for _, u := range rep.UnusedContracts {
				fmt.Println("   UNUSED CONTRACT:", u)
			}
		}
	case "run":
		// development interface of the prototype: govc run <contracts> <regex> <pkgs...>
		applyTier("quick")
		rep := runUnit(os.Args[2], "", os.Args[3], os.Args[4], map[string]string{}, os.Getenv("GOVC_SMTDIR"), true)
		if rep.Error != "" {
			fmt.Println("ERROR:", rep.Error)
			os.Exit(2)
		}
		tot, ok := 0, 0
		for _, f := range rep.Functions {
			for _, o := range f.Obligations {
				tot++
				if o.Status == "discharged" || o.Status == "reachable" {
					ok++
				}
			}
			tot += len(f.SpecErrors)
		}
		for _, u := range rep.UnusedContracts {
			fmt.Println("   UNUSED CONTRACT:", u)
		}
		fmt.Printf("TOTAL obligations=%d discharged=%d (load %.1fs)\n", tot, ok, rep.LoadS)
	case "check":
		os.Exit(cmdCheck(os.Args[2:]))
	case "units":
		os.Exit(cmdUnits(os.Args[2:]))
	case "replay":
		os.Exit(cmdReplay(os.Args[2:]))
	default:
		fmt.Fprintln(os.Stderr, "unknown subcommand", os.Args[1])
		os.Exit(2)
	}
}

func applyTier(tier string) {
	switch tier {
	case "thorough":
		secondChanceTimeout, knownTimeout, vacuityTimeout, crossCheck = 60, 10, 30, true
	default:
		secondChanceTimeout, knownTimeout, vacuityTimeout, crossCheck = 20, 1, 5, false
	}
	if s := os.Getenv("VERIF_SEED"); s != "" {
		fmt.Sscan(s, &solverSeed)
	}
}
