package main

import (
	"bufio"
	"fmt"
	"go/ast"
	"go/parser"
	"os"
	"path/filepath"
	"regexp"
	"strconv"
	"strings"
)

// Contract is the parsed //@ block of one function.
type Contract struct {
	Func           string
	Pure           bool
	Reads          []string
	Modifies       []string
	Requires       []Clause
	Ensures        []Clause
	EnsuresOnPanic []Clause
	LoopInv        map[int][]Clause
	LoopDec        map[int]ast.Expr
	Overflow       bool
	MayPanic       bool
	Decreases      ast.Expr // `decreases e`: variant of a directly recursive function (non-negative at entry, smaller at each recursive call)
	CallbacksReady bool // `callbacks_ready`: a contracted parameterless literal passed as an argument must have its preconditions established at that call
	Watch          bool
	Recovers       bool
	SrcLine        int
	AtCallDo       map[string][]GhostSet // ghost assignments right after a call to the named callee
	LoopUse        map[int][]ast.Expr    // manual axiom instantiations at loop heads
	AtCall         map[string][]Clause   // proof hints: assertions right after a call to the named callee
	AtCallBefore   map[string][]Clause   // obligations in the state right before a call to the named callee
	Unreachable    map[string]bool       // covers the contract declares dead on purpose (a deliberately restricted case)
}

// GhostSet is `ghost = expr` performed after a call.
type GhostSet struct {
	Name string
	Arg  ast.Expr // non-nil: ghost function entry  name(arg) = expr
	Expr ast.Expr
}

// SpecFunc is an uninterpreted specification function.
type SpecFunc struct {
	Name   string
	Params []Binder
	Result ast.Expr
}

type Binder struct {
	Name string
	Typ  ast.Expr
}

// Axiom is a global, universally closed fact about spec functions / pure functions.
type Axiom struct {
	Binders []Binder
	Expr    ast.Expr
	Text    string
	Name    string // non-empty: manual axiom, instantiated only by `use Name(args)`
}

var specFuncs = map[string]*SpecFunc{}

// Define is a specification macro: name(params) = body, expanded at use.
type Define struct {
	Name   string
	Params []Binder
	Body   ast.Expr
}

var defines = map[string]*Define{}
var ghostInts = map[string]bool{}
var ghostFns = map[string]bool{}
var stateInvariants []*Axiom

// TypeContract bounds the methods promoted onto *T from embedded fields.
type TypeContract struct {
	Type        string
	Allowed     []string
	Declared    []string
	HasDeclared bool
}

var typeContracts []TypeContract

// TableContract orders entries of a package-level string table.
type TableContract struct {
	Var   string
	Order []string
}

var tableContracts []TableContract
var globalInvariants []Clause // facts about package-level state: assumed at entry (to be re-established at exit by writers)
var axioms []*Axiom

func parseBinders(list string) ([]Binder, error) {
	// "a, b string, k int" -> binders, using go/parser on a func type
	e, err := parser.ParseExpr("func(" + list + ")")
	if err != nil {
		return nil, err
	}
	ft := e.(*ast.FuncType)
	var out []Binder
	for _, f := range ft.Params.List {
		for _, n := range f.Names {
			out = append(out, Binder{n.Name, f.Type})
		}
	}
	return out, nil
}

type Clause struct {
	Label string
	Expr  ast.Expr
	Text  string
	Cover bool // `at call … cover`: a reachability requirement (the call is reached in a state satisfying Expr), not an obligation on every state
}

var labelRe = regexp.MustCompile(`^\[([A-Za-z0-9_]+)\]\s*(.*)$`)

// rewriteImplies turns top-level `A ==> B` into implies(A, B) (right assoc, lowest precedence).
func rewriteImplies(s string) string {
	depth := 0
	inStr := false
	for i := 0; i+2 < len(s); i++ {
		c := s[i]
		if c == '"' {
			inStr = !inStr
		}
		if inStr {
			continue
		}
		switch c {
		case '(', '[', '{':
			depth++
		case ')', ']', '}':
			depth--
		}
		if depth == 0 && s[i:i+3] == "==>" {
			return "implies(" + rewriteImpliesInner(s[:i]) + ", " + rewriteImplies(s[i+3:]) + ")"
		}
	}
	return rewriteImpliesInner(s)
}

// rewriteImpliesInner handles `==>` nested inside call arguments (e.g. forall bodies).
func rewriteImpliesInner(s string) string {
	// find call argument lists and rewrite each argument recursively
	var out strings.Builder
	i := 0
	for i < len(s) {
		c := s[i]
		if c == '(' {
			// find matching paren
			depth := 1
			j := i + 1
			for j < len(s) && depth > 0 {
				if s[j] == '(' {
					depth++
				} else if s[j] == ')' {
					depth--
				}
				j++
			}
			inner := s[i+1 : j-1]
			// split inner by top-level commas
			var parts []string
			d := 0
			last := 0
			for k := 0; k < len(inner); k++ {
				switch inner[k] {
				case '(', '[', '{':
					d++
				case ')', ']', '}':
					d--
				case ',':
					if d == 0 {
						parts = append(parts, inner[last:k])
						last = k + 1
					}
				}
			}
			parts = append(parts, inner[last:])
			for k := range parts {
				parts[k] = rewriteImplies(parts[k])
			}
			out.WriteString("(" + strings.Join(parts, ",") + ")")
			i = j
			continue
		}
		out.WriteByte(c)
		i++
	}
	return out.String()
}

func parseSpecExpr(text string) (ast.Expr, error) {
	t := regexp.MustCompile(`#i([0-9]*)`).ReplaceAllString(text, "__ri$1")
	// #r / #rN: the slice a range loop (loop N; this loop when N is omitted) iterates over, as evaluated when the loop started
	t = regexp.MustCompile(`#r([0-9]*)`).ReplaceAllString(t, "__rr$1")
	t = rewriteImplies(t)
	return parser.ParseExpr(t)
}

// UnitHeader is the `//@ unit <name> key=value ...` line that opens a verification unit in a contracts file.
type UnitHeader struct {
	Name  string
	File  string
	Line  int
	Attrs map[string]string
}

var unitAttrRe = regexp.MustCompile("([a-z_]+)=(`[^`]*`|\\S+)")

func parseUnitHeader(line string) UnitHeader {
	fields := strings.Fields(line)
	h := UnitHeader{Name: fields[1], Attrs: map[string]string{}}
	for _, m := range unitAttrRe.FindAllStringSubmatch(line, -1) {
		h.Attrs[m[1]] = strings.Trim(m[2], "`")
	}
	return h
}

// listUnits returns the unit headers of a contracts file.
func listUnits(path string) ([]UnitHeader, error) {
	f, err := os.Open(path)
	if err != nil {
		return nil, err
	}
	defer f.Close()
	var out []UnitHeader
	sc := bufio.NewScanner(f)
	sc.Buffer(make([]byte, 1<<20), 1<<20)
	ln := 0
	for sc.Scan() {
		ln++
		line := strings.TrimSpace(sc.Text())
		if !strings.HasPrefix(line, "//@") {
			continue
		}
		line = strings.TrimSpace(strings.TrimPrefix(line, "//@"))
		if strings.HasPrefix(line, "unit ") {
			h := parseUnitHeader(line)
			h.File, h.Line = path, ln
			out = append(out, h)
		}
	}
	return out, nil
}

// importedContracts: contracts brought in by `use` (qualified name -> origin "file:unit").
var importedContracts = map[string]string{}

var modulePathCache string

func modulePath() string {
	if modulePathCache == "" {
		b, _ := os.ReadFile(filepath.Join(repoDir(), "go.mod"))
		for _, l := range strings.Split(string(b), "\n") {
			if strings.HasPrefix(l, "module ") {
				modulePathCache = strings.TrimSpace(strings.TrimPrefix(l, "module "))
			}
		}
	}
	return modulePathCache
}

func pkgPathOfFile(file string) string {
	rel, err := filepath.Rel(repoDir(), filepath.Dir(file))
	if err != nil || rel == "." {
		return modulePath()
	}
	return modulePath() + "/" + filepath.ToSlash(rel)
}

// qualifyName turns a package-relative function name into the form go/ssa prints for it.
func qualifyName(short, pkg string) string {
	switch {
	case strings.HasPrefix(short, "invoke:"), strings.Contains(short, "/"):
		return short
	case strings.HasPrefix(short, "(*"):
		if strings.Contains(strings.SplitN(short, ")", 2)[0], ".") {
			return short
		}
		return "(*" + pkg + "." + short[2:]
	case strings.HasPrefix(short, "("):
		if strings.Contains(strings.SplitN(short, ")", 2)[0], ".") {
			return short
		}
		return "(" + pkg + "." + short[1:]
	case strings.Contains(short, "."):
		return short // already package-qualified (extern of the standard library)
	}
	return pkg + "." + short
}

// externContracts: names of contracts declared with `extern` (assumed, never proved here).
var externContracts = map[string]bool{}

// parseContracts reads the //@ lines of one unit ("" = the whole file, for stand-alone .contracts/.spec files).
// Lines before the first `unit` header (a file-level common section) belong to every unit of the file.
func parseContracts(path string, unit string) (map[string]*Contract, error) {
	f, err := os.Open(path)
	if err != nil {
		return nil, err
	}
	defer f.Close()
	out := map[string]*Contract{}
	var cur *Contract
	sc := bufio.NewScanner(f)
	sc.Buffer(make([]byte, 1<<20), 1<<20)
	ln := 0
	active := true
	for sc.Scan() {
		ln++
		line := strings.TrimSpace(sc.Text())
		if !strings.HasPrefix(line, "//@") {
			continue
		}
		line = strings.TrimSpace(strings.TrimPrefix(line, "//@"))
		if strings.HasPrefix(line, "unit ") {
			h := parseUnitHeader(line)
			active = unit == "" || h.Name == unit
			cur = nil
			continue
		}
		if !active || strings.HasPrefix(line, "//") {
			continue
		}
		if i := strings.Index(line, " //"); i >= 0 { // trailing comment
			line = strings.TrimSpace(line[:i])
		}
		if line == "" {
			continue
		}
		fields := strings.Fields(line)
		switch fields[0] {
		case "use":
			// use <file relative to the repository>:<unit> — import the contracts of another unit (of another package);
			// they are assumed here and proved where that unit is verified. Names are qualified with that package's path.
			parts := strings.SplitN(fields[1], ":", 2)
			if len(parts) != 2 {
				return nil, fmt.Errorf("%s:%d: use <file>:<unit>", path, ln)
			}
			other := filepath.Join(repoDir(), parts[0])
			if strings.HasPrefix(parts[0], "@verif/") {
				// assumed contracts of functions outside the repository live in /verif/specs (names fully qualified there)
				other = filepath.Join(verifDir(), strings.TrimPrefix(parts[0], "@verif/"))
			}
			imp, err := parseContracts(other, parts[1])
			if err != nil {
				return nil, fmt.Errorf("%s:%d: use: %v", path, ln, err)
			}
			if len(imp) == 0 {
				return nil, fmt.Errorf("%s:%d: use: unit %s of %s has no contracts", path, ln, parts[1], parts[0])
			}
			pp := pkgPathOfFile(other)
			for name, ct := range imp {
				q := qualifyName(name, pp)
				if name != ct.Func {
					continue
				}
				ct.Func = q
				out[q] = ct
				importedContracts[q] = parts[0] + ":" + parts[1]
			}
			cur = nil
			continue
		case "ghost":
			// ghost name int
			ghostInts[fields[1]] = true
			continue
		case "table":
			// table <var> order a, b, c : in the package-level []string literal <var>, each listed name occurs exactly once
			// and they occur in this relative order (a contract on a constant table: decided by reading the literal)
			rest := strings.TrimSpace(strings.TrimPrefix(line, "table"))
			parts := strings.SplitN(rest, " order ", 2)
			if len(parts) != 2 {
				return nil, fmt.Errorf("%s:%d: expected `table <var> order a, b, c`", path, ln)
			}
			tb := TableContract{Var: strings.TrimSpace(parts[0])}
			for _, m := range strings.Split(parts[1], ",") {
				if m = strings.TrimSpace(m); m != "" {
					tb.Order = append(tb.Order, m)
				}
			}
			tableContracts = append(tableContracts, tb)
			continue
		case "type":
			// type T promotes M1, M2, ... : the methods that reach *T through embedding are exactly-at-most these
			// (a contract on the method SET of a type: decided by the type checker, no solver involved)
			rest := strings.TrimSpace(strings.TrimPrefix(line, "type"))
			parts := strings.SplitN(rest, " promotes", 2)
			if len(parts) != 2 {
				return nil, fmt.Errorf("%s:%d: expected `type T promotes M1, M2, ...`", path, ln)
			}
			tc := TypeContract{Type: strings.TrimSpace(parts[0])}
			// optional second list: `... declares W1, W2`: the methods declared on the type itself are at most these (a
			// writer wrapper whose every way to the client is under contract: a new ReadFrom/WriteString is a new way)
			if dp := strings.SplitN(parts[1], " declares", 2); len(dp) == 2 {
				parts[1] = dp[0]
				tc.HasDeclared = true
				for _, m := range strings.Split(dp[1], ",") {
					if m = strings.TrimSpace(m); m != "" {
						tc.Declared = append(tc.Declared, m)
					}
				}
			}
			for _, m := range strings.Split(parts[1], ",") {
				if m = strings.TrimSpace(m); m != "" {
					tc.Allowed = append(tc.Allowed, m)
				}
			}
			typeContracts = append(typeContracts, tc)
			continue
		case "invariant":
			rest := strings.TrimSpace(strings.TrimPrefix(line, "invariant"))
			if strings.HasPrefix(rest, "(") {
				// invariant (typed binders) expr : a state fact quantified over objects/keys, NOT over heaps
				depth, cp := 0, -1
				for i, c := range rest {
					if c == '(' {
						depth++
					} else if c == ')' {
						depth--
						if depth == 0 {
							cp = i
							break
						}
					}
				}
				if bs, err := parseBinders(rest[1:cp]); err == nil && len(bs) > 0 {
					e, err := parseSpecExpr(strings.TrimSpace(rest[cp+1:]))
					if err != nil {
						return nil, fmt.Errorf("%s:%d: %v", path, ln, err)
					}
					stateInvariants = append(stateInvariants, &Axiom{Binders: bs, Expr: e, Text: rest})
					continue
				}
			}
			e, err := parseSpecExpr(rest)
			if err != nil {
				return nil, fmt.Errorf("%s:%d: %v", path, ln, err)
			}
			globalInvariants = append(globalInvariants, Clause{Label: fmt.Sprintf("global_inv%d", len(globalInvariants)+1), Expr: e, Text: rest})
			continue
		case "ghostfn":
			ghostFns[fields[1]] = true
			continue
		case "define":
			rest := strings.TrimSpace(strings.TrimPrefix(line, "define"))
			eq := strings.Index(rest, "=")
			head, body := strings.TrimSpace(rest[:eq]), strings.TrimSpace(rest[eq+1:])
			op := strings.Index(head, "(")
			cp := strings.LastIndex(head, ")")
			bs, err := parseBinders(head[op+1 : cp])
			if err != nil {
				return nil, fmt.Errorf("%s:%d: %v", path, ln, err)
			}
			e, err := parseSpecExpr(body)
			if err != nil {
				return nil, fmt.Errorf("%s:%d: %v in define", path, ln, err)
			}
			defines[strings.TrimSpace(head[:op])] = &Define{Name: strings.TrimSpace(head[:op]), Params: bs, Body: e}
			continue
		case "spec":
			// spec name(params) type
			rest := strings.TrimSpace(strings.TrimPrefix(line, "spec"))
			op := strings.Index(rest, "(")
			cp := strings.LastIndex(rest, ")")
			bs, err := parseBinders(rest[op+1 : cp])
			if err != nil {
				return nil, fmt.Errorf("%s:%d: %v", path, ln, err)
			}
			rt, err := parser.ParseExpr(strings.TrimSpace(rest[cp+1:]))
			if err != nil {
				return nil, fmt.Errorf("%s:%d: %v", path, ln, err)
			}
			specFuncs[strings.TrimSpace(rest[:op])] = &SpecFunc{Name: strings.TrimSpace(rest[:op]), Params: bs, Result: rt}
			continue
		case "axiom":
			rest := strings.TrimSpace(strings.TrimPrefix(line, "axiom"))
			axName := ""
			if !strings.HasPrefix(rest, "(") {
				// axiom name (binders) expr  -> manual
				op := strings.Index(rest, "(")
				axName = strings.TrimSpace(rest[:op])
				rest = rest[op:]
			}
			// (binders) expr
			depth, cp := 0, -1
			for i, c := range rest {
				if c == '(' {
					depth++
				} else if c == ')' {
					depth--
					if depth == 0 {
						cp = i
						break
					}
				}
			}
			bs, err := parseBinders(rest[1:cp])
			if err != nil {
				return nil, fmt.Errorf("%s:%d: %v", path, ln, err)
			}
			e, err := parseSpecExpr(strings.TrimSpace(rest[cp+1:]))
			if err != nil {
				return nil, fmt.Errorf("%s:%d: %v in axiom", path, ln, err)
			}
			axioms = append(axioms, &Axiom{Binders: bs, Expr: e, Text: rest, Name: axName})
			continue
		case "func", "extern":
			isExtern := fields[0] == "extern"
			line = strings.Replace(line, "extern", "func", 1)
			if isExtern {
				externContracts[strings.TrimSpace(strings.TrimPrefix(line, "func"))] = true
			}
			cur = &Contract{Func: strings.TrimSpace(strings.TrimPrefix(line, "func")), LoopInv: map[int][]Clause{}, LoopDec: map[int]ast.Expr{}, SrcLine: ln}
			out[cur.Func] = cur
		case "pure":
			cur.Pure = true
			rest := strings.TrimSpace(strings.TrimPrefix(line, "pure"))
			if strings.HasPrefix(rest, "reads") {
				for _, r := range strings.Split(strings.TrimPrefix(rest, "reads"), ",") {
					if r = strings.TrimSpace(r); r != "" {
						cur.Reads = append(cur.Reads, r)
					}
				}
			}
		case "modifies":
			for _, r := range strings.Split(strings.TrimPrefix(line, "modifies"), ",") {
				if r = strings.TrimSpace(r); r != "" {
					cur.Modifies = append(cur.Modifies, r)
				}
			}
		case "at":
			// at call <callee> assert <expr>
			if cur != nil && externContracts[cur.Func] {
				return nil, fmt.Errorf("%s:%d: `at call` clause under extern %s: it belongs to the function whose body makes the call", path, ln, cur.Func)
			}
			if len(fields) >= 7 && fields[1] == "call" && fields[3] == "do" && strings.Contains(line, " = ") {
				eq := strings.Index(line, " = ")
				lhs := strings.TrimSpace(line[strings.Index(line, " do ")+4 : eq])
				e, err := parseSpecExpr(strings.TrimSpace(line[eq+3:]))
				if err != nil {
					return nil, fmt.Errorf("%s:%d: %v", path, ln, err)
				}
				if cur.AtCallDo == nil {
					cur.AtCallDo = map[string][]GhostSet{}
				}
				gs := GhostSet{Name: lhs, Expr: e}
				if op := strings.Index(lhs, "("); op > 0 {
					arg, err := parseSpecExpr(lhs[op+1 : len(lhs)-1])
					if err != nil {
						return nil, fmt.Errorf("%s:%d: %v", path, ln, err)
					}
					gs = GhostSet{Name: lhs[:op], Arg: arg, Expr: e}
				}
				cur.AtCallDo[fields[2]] = append(cur.AtCallDo[fields[2]], gs)
				continue
			}
			if len(fields) >= 5 && fields[1] == "call" && (fields[3] == "before" || fields[3] == "cover") {
				// at call <callee> before [label] <expr>: an obligation in the state right BEFORE the call
				// at call <callee> cover [label] <expr>: the call must be REACHABLE in a state where <expr> holds
				rest := strings.TrimSpace(line[strings.Index(line, " "+fields[3]+" ")+len(fields[3])+2:])
				label := ""
				if m := labelRe.FindStringSubmatch(rest); m != nil {
					label, rest = m[1], m[2]
				}
				e, err := parseSpecExpr(rest)
				if err != nil {
					return nil, fmt.Errorf("%s:%d: %v in %q", path, ln, err, rest)
				}
				if cur.AtCallBefore == nil {
					cur.AtCallBefore = map[string][]Clause{}
				}
				if label == "" {
					label = fmt.Sprintf("before_%s%d", fields[2], len(cur.AtCallBefore[fields[2]])+1)
				}
				cur.AtCallBefore[fields[2]] = append(cur.AtCallBefore[fields[2]], Clause{Label: label, Expr: e, Text: rest, Cover: fields[3] == "cover"})
				continue
			}
			if len(fields) < 5 || fields[1] != "call" || fields[3] != "assert" {
				return nil, fmt.Errorf("%s:%d: expected `at call <callee> assert|before|do <expr>`", path, ln)
			}
			rest := strings.TrimSpace(line[strings.Index(line, " assert ")+8:])
			label := ""
			if m := labelRe.FindStringSubmatch(rest); m != nil {
				label, rest = m[1], m[2]
			}
			e, err := parseSpecExpr(rest)
			if err != nil {
				return nil, fmt.Errorf("%s:%d: %v in %q", path, ln, err, rest)
			}
			if cur.AtCall == nil {
				cur.AtCall = map[string][]Clause{}
			}
			if label == "" {
				label = fmt.Sprintf("hint_%s%d", fields[2], len(cur.AtCall[fields[2]])+1)
			}
			cur.AtCall[fields[2]] = append(cur.AtCall[fields[2]], Clause{Label: label, Expr: e, Text: rest})
		case "unreachable":
			if cur.Unreachable == nil {
				cur.Unreachable = map[string]bool{}
			}
			cur.Unreachable[strings.TrimSpace(strings.TrimPrefix(line, "unreachable"))] = true
		case "check":
			cur.Overflow = true
		case "decreases":
			e, err := parseSpecExpr(strings.TrimSpace(strings.TrimPrefix(line, "decreases")))
			if err != nil {
				return nil, fmt.Errorf("%s:%d: %v", path, ln, err)
			}
			cur.Decreases = e
		case "may_panic":
			cur.MayPanic = true
		case "callbacks_ready":
			cur.CallbacksReady = true
		case "watch":
			// a contract that instruments calls the code is NOT expected to make (counting header edits, say): it is not
			// reported as unused when no such call exists
			cur.Watch = true
		case "recovers":
			cur.Recovers = true
		case "ensures_on_panic":
			rest := strings.TrimSpace(line[len(fields[0]):])
			label := ""
			if m := labelRe.FindStringSubmatch(rest); m != nil {
				label, rest = m[1], m[2]
			}
			e, err := parseSpecExpr(rest)
			if err != nil {
				return nil, fmt.Errorf("%s:%d: %v in %q", path, ln, err, rest)
			}
			if label == "" {
				label = fmt.Sprintf("on_panic%d", len(cur.EnsuresOnPanic)+1)
			}
			cur.EnsuresOnPanic = append(cur.EnsuresOnPanic, Clause{Label: label, Expr: e, Text: rest})
		case "requires", "ensures":
			rest := strings.TrimSpace(line[len(fields[0]):])
			label := ""
			if m := labelRe.FindStringSubmatch(rest); m != nil {
				label, rest = m[1], m[2]
			}
			e, err := parseSpecExpr(rest)
			if err != nil {
				return nil, fmt.Errorf("%s:%d: %v in %q", path, ln, err, rest)
			}
			cl := Clause{Label: label, Expr: e, Text: rest}
			if fields[0] == "requires" {
				if cl.Label == "" {
					cl.Label = fmt.Sprintf("requires%d", len(cur.Requires)+1)
				}
				cur.Requires = append(cur.Requires, cl)
			} else {
				if cl.Label == "" {
					cl.Label = fmt.Sprintf("ensures%d", len(cur.Ensures)+1)
				}
				cur.Ensures = append(cur.Ensures, cl)
			}
		case "loop":
			n, err := strconv.Atoi(fields[1])
			if err != nil {
				return nil, fmt.Errorf("%s:%d: bad loop ordinal", path, ln)
			}
			rest := strings.TrimSpace(strings.Join(fields[3:], " "))
			label := ""
			if m := labelRe.FindStringSubmatch(rest); m != nil {
				label, rest = m[1], m[2]
			}
			e, err := parseSpecExpr(rest)
			if err != nil {
				return nil, fmt.Errorf("%s:%d: %v in %q", path, ln, err, rest)
			}
			switch fields[2] {
			case "use":
				if cur.LoopUse == nil {
					cur.LoopUse = map[int][]ast.Expr{}
				}
				cur.LoopUse[n] = append(cur.LoopUse[n], e)
			case "invariant":
				if label == "" {
					label = fmt.Sprintf("loop%d_inv%d", n, len(cur.LoopInv[n])+1)
				}
				cur.LoopInv[n] = append(cur.LoopInv[n], Clause{Label: label, Expr: e, Text: rest})
			case "decreases":
				cur.LoopDec[n] = e
			}
		default:
			return nil, fmt.Errorf("%s:%d: unknown contract keyword %q", path, ln, fields[0])
		}
	}
	return out, nil
}
