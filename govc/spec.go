package main

import (
	"fmt"
	"go/ast"
	"go/constant"
	"go/token"
	"go/types"
	"strconv"
	"strings"

	"golang.org/x/tools/go/ssa"
)

// SpecEnv is the context in which a specification expression is evaluated.
type SpecEnv struct {
	g           *Gen
	st          *State // current state
	old         *State // pre-state (for old(...))
	fn          *ssa.Function
	argOverride map[string]Term // parameter name -> actual (call sites, pure unfolding)
	bound       map[string]Term
	results     []Term
	atReturn    bool
	inOld       bool
	depth       int
	boundTypes  map[string]types.Type
	hintResult  *SV // `result` inside an at-call hint: the call's result
	ifaceSig    *types.Signature
	retIndex    int          // 1+index of the wanted result of a multi-result pure call (0: single)
	extNames    []string     // parameter names of a body-less callee (interface method / extern)
	extTypes    []types.Type
	ri          *Term // value of #i at the loop head
	evalBlock   *ssa.BasicBlock
	// role: whether the clause under evaluation is going to be assumed or asserted (0: unknown); neg: inside an odd number
	// of negations; unk: under a connective without polarity (==). Only used to shape bounded existentials (see exists).
	role int
	loopOrd int // ordinal of the loop whose invariant is being evaluated (for #r)
	neg  bool
	unk  bool
}

const (
	roleAssume = 1
	roleAssert = -1
)

type SV struct {
	T   Term
	Typ types.Type
}

var tInt = types.Typ[types.Int]
var tBoolT = types.Typ[types.Bool]

func (e *SpecEnv) evalBool(x ast.Expr) (Term, error) {
	v, err := e.eval(x)
	if err != nil {
		return Term{}, err
	}
	if v.T.Sort != "Bool" {
		return Term{}, fmt.Errorf("expected bool, got %s", v.T.Sort)
	}
	return v.T, nil
}

func (e *SpecEnv) state() *State {
	if e.inOld {
		return e.old
	}
	return e.st
}

func (e *SpecEnv) lookupLocal(name string) (*ssa.Alloc, bool) {
	var best *ssa.Alloc
	for _, b := range e.fn.Blocks {
		for _, in := range b.Instrs {
			if al, ok := in.(*ssa.Alloc); ok && al.Comment == name {
				if e.evalBlock != nil && !b.Dominates(e.evalBlock) {
					continue
				}
				if best == nil || al.Pos() > best.Pos() {
					best = al
				}
			}
		}
	}
	return best, best != nil
}

func (e *SpecEnv) ident(id *ast.Ident) (SV, error) {
	g := e.g
	name := id.Name
	switch name {
	case "true":
		return SV{tTrue, tBoolT}, nil
	case "false":
		return SV{tFalse, tBoolT}, nil
	case "nil":
		return SV{T("0", "Int"), types.Typ[types.UntypedNil]}, nil
	case "__ri":
		if e.ri == nil {
			return SV{}, fmt.Errorf("#i used outside a range loop invariant")
		}
		return SV{*e.ri, tInt}, nil
	}
	if len(name) == 7 && strings.HasPrefix(name, "result") && name[6] >= '0' && name[6] <= '9' {
		i := int(name[6] - '0')
		if i >= len(e.results) {
			return SV{}, fmt.Errorf("%s not available", name)
		}
		var rt types.Type
		if e.ifaceSig != nil {
			rt = e.ifaceSig.Results().At(i).Type()
		} else {
			rt = e.fn.Signature.Results().At(i).Type()
		}
		return SV{e.results[i], rt}, nil
	}
	if strings.HasPrefix(name, "__rr") {
		n := e.loopOrd
		if len(name) > 4 {
			n, _ = strconv.Atoi(strings.TrimPrefix(name, "__rr"))
		}
		x, ok := g.loopRR[n]
		if !ok {
			return SV{}, fmt.Errorf("#r: loop %d is not a range loop over a slice", n)
		}
		return SV{g.val(x, e.state()), x.Type()}, nil
	}
	if strings.HasPrefix(name, "__ri") {
		n, _ := strconv.Atoi(strings.TrimPrefix(name, "__ri"))
		al, ok := g.loopRI[n]
		if !ok {
			return SV{}, fmt.Errorf("#i%d: loop %d is not a range loop", n, n)
		}
		v := g.w.loadAddr(g.resolveAddr(al, e.state()), e.state(), tInt)
		return SV{T(fmt.Sprintf("(+ %s 1)", v.S), "Int"), tInt}, nil
	}
	if ghostInts[name] {
		arr := g.w.heapArr(e.state(), "ghost:"+name, "Int")
		return SV{T(fmt.Sprintf("(select %s 0)", arr.S), "Int"), tInt}, nil
	}
	switch name {
	case "result":
		if e.hintResult != nil {
			return *e.hintResult, nil
		}
		if len(e.results) == 0 {
			return SV{}, fmt.Errorf("result not available here")
		}
		if e.ifaceSig != nil && e.ifaceSig.Results().Len() > 0 {
			return SV{e.results[0], e.ifaceSig.Results().At(0).Type()}, nil
		}
		return SV{e.results[0], e.fn.Signature.Results().At(0).Type()}, nil
	}
	if t, ok := e.bound[name]; ok {
		if bt, ok := e.boundTypes[name]; ok {
			return SV{t, bt}, nil
		}
		return SV{t, tInt}, nil
	}
	// named results
	if res := e.fn.Signature.Results(); res != nil && len(e.results) == res.Len() {
		for i := 0; i < res.Len(); i++ {
			if res.At(i).Name() == name && !e.inOld {
				return SV{e.results[i], res.At(i).Type()}, nil
			}
		}
	}
	for i, n := range e.extNames {
		if n == name {
			if t, ok := e.argOverride[name]; ok {
				return SV{t, e.extTypes[i]}, nil
			}
		}
	}
	// parameters of body-less (extern) functions
	if len(e.extNames) == 0 && len(e.fn.Params) == 0 {
		names, typs := paramNames(e.fn), paramTypes(e.fn)
		for i, n := range names {
			if n == name {
				if t, ok := e.argOverride[name]; ok {
					return SV{t, typs[i]}, nil
				}
			}
		}
	}
	// parameters
	for _, p := range e.fn.Params {
		if p.Name() == name {
			if t, ok := e.argOverride[name]; ok {
				return SV{t, p.Type()}, nil
			}
			if e.inOld || e.fn != g.f || e.atReturn {
				// in postconditions a parameter name denotes its ENTRY value (callers know no other)
				return SV{g.val(p, e.state()), p.Type()}, nil
			}
			// current value: the param's cell if it exists in this function
			if al, ok := e.lookupLocal(name); ok {
				a := g.resolveAddr(al, e.state())
				return SV{g.w.loadAddr(a, e.state(), p.Type()), p.Type()}, nil
			}
			return SV{g.val(p, e.state()), p.Type()}, nil
		}
	}
	// free vars (closures)
	for _, fv := range e.fn.FreeVars {
		if fv.Name() == name {
			pt := fv.Type().Underlying().(*types.Pointer).Elem()
			// a free variable is the address of the captured variable: the name denotes its current contents
			if addr, ok := g.fvBind[name]; ok && e.fn != g.f {
				a := g.resolveAddr(addr, e.state())
				return SV{g.w.loadAddr(a, e.state(), pt), pt}, nil
			}
			if e.fn == g.f {
				a := g.resolveAddr(fv, e.state())
				return SV{g.w.loadAddr(a, e.state(), pt), pt}, nil
			}
			return SV{g.w.freshTyped("fv_"+name, pt), pt}, nil
		}
	}
	// locals (only meaningful when evaluating inside g.f)
	if e.fn == g.f {
		if al, ok := e.lookupLocal(name); ok {
			et := al.Type().Underlying().(*types.Pointer).Elem()
			if e.inOld {
				// a local variable has no value at entry: inside old() it would denote an unconstrained constant
				return SV{}, fmt.Errorf("local variable %q inside old(): locals have no entry value (name the parameter-based term instead)", name)
			}
			if base, isArr := g.arrBase[al]; isArr && base.S != "" {
				// a local array lives in the element heap: its value is the array of its current cells
				at, ok := et.Underlying().(*types.Array)
				if !ok || at.Len() > 16 || g.w.heapBound() {
					return SV{}, fmt.Errorf("local array %q cannot be named here", name)
				}
				av := g.w.fresh("av_"+name, g.w.sortOf(et))
				for i := int64(0); i < at.Len(); i++ {
					ea := Addr{kind: "elem", slice: base, idx: T(fmt.Sprint(i), "Int"), typ: at.Elem()}
					g.w.assume(fmt.Sprintf("(= (select %s %d) %s)", av.S, i, g.w.loadAddr(ea, e.state(), at.Elem()).S))
				}
				return SV{av, et}, nil
			}
			a := g.resolveAddr(al, e.state())
			return SV{g.w.loadAddr(a, e.state(), et), et}, nil
		}
	}
	// package-level objects
	if obj := e.fn.Pkg.Pkg.Scope().Lookup(name); obj != nil {
		return e.pkgObject(e.fn.Pkg, obj)
	}
	if obj := types.Universe.Lookup(name); obj != nil {
		if c, ok := obj.(*types.Const); ok {
			return e.constSV(c)
		}
	}
	return SV{}, fmt.Errorf("unknown identifier %q", name)
}

func (e *SpecEnv) constSV(c *types.Const) (SV, error) {
	switch c.Val().Kind() {
	case constant.Int:
		if i, ok := constant.Int64Val(c.Val()); ok {
			return SV{T(lit(i), "Int"), c.Type()}, nil
		}
		if u, ok := constant.Uint64Val(c.Val()); ok {
			return SV{T(fmt.Sprint(u), "Int"), c.Type()}, nil
		}
	case constant.Bool:
		if constant.BoolVal(c.Val()) {
			return SV{tTrue, tBoolT}, nil
		}
		return SV{tFalse, tBoolT}, nil
	case constant.String:
		return SV{e.g.w.strLit(constant.StringVal(c.Val())), c.Type()}, nil
	}
	return SV{}, fmt.Errorf("unsupported constant %s", c.Name())
}

func (e *SpecEnv) pkgObject(pkg *ssa.Package, obj types.Object) (SV, error) {
	switch o := obj.(type) {
	case *types.Const:
		return e.constSV(o)
	case *types.Var:
		gl := pkg.Var(o.Name())
		if gl == nil {
			return SV{}, fmt.Errorf("no ssa global for %s", o.Name())
		}
		a := e.g.resolveAddr(gl, e.state())
		return SV{e.g.w.loadAddr(a, e.state(), o.Type()), o.Type()}, nil
	}
	if fo, ok := obj.(*types.Func); ok {
		if fn := pkg.Func(fo.Name()); fn != nil {
			return SV{e.g.w.globalRef("F:" + fn.String()), fo.Type()}, nil
		}
	}
	return SV{}, fmt.Errorf("unsupported package object %s", obj.Name())
}

func (e *SpecEnv) eval(x ast.Expr) (SV, error) {
	g := e.g
	w := g.w
	switch n := x.(type) {
	case *ast.ParenExpr:
		return e.eval(n.X)
	case *ast.Ident:
		return e.ident(n)
	case *ast.BasicLit:
		switch n.Kind {
		case token.INT:
			v, err := strconv.ParseInt(n.Value, 0, 64)
			if err != nil {
				u, err2 := strconv.ParseUint(n.Value, 0, 64)
				if err2 != nil {
					return SV{}, err
				}
				return SV{T(fmt.Sprint(u), "Int"), types.Typ[types.UntypedInt]}, nil
			}
			return SV{T(lit(v), "Int"), types.Typ[types.UntypedInt]}, nil
		case token.STRING:
			s, _ := strconv.Unquote(n.Value)
			return SV{w.strLit(s), types.Typ[types.String]}, nil
		case token.CHAR:
			s, _ := strconv.Unquote(n.Value)
			return SV{T(fmt.Sprint(int(s[0])), "Int"), types.Typ[types.UntypedRune]}, nil
		}
	case *ast.UnaryExpr:
		if n.Op == token.NOT {
			e.neg = !e.neg
		}
		v, err := e.eval(n.X)
		if n.Op == token.NOT {
			e.neg = !e.neg
		}
		if err != nil {
			return SV{}, err
		}
		switch n.Op {
		case token.NOT:
			return SV{T("(not "+v.T.S+")", "Bool"), tBoolT}, nil
		case token.SUB:
			return SV{T("(- "+v.T.S+")", "Int"), v.Typ}, nil
		}
	case *ast.TypeAssertExpr:
		// x.(*T): the interface value x seen as the pointer it holds (interface values with pointer payloads are that pointer
		// in this encoding); for naming the object the CODE obtains by the same assertion, nothing is asserted about x here
		if n.Type != nil {
			t, err := e.resolveType(n.Type)
			if err != nil {
				return SV{}, err
			}
			if _, isPtr := t.Underlying().(*types.Pointer); isPtr {
				v, err := e.eval(n.X)
				if err != nil {
					return SV{}, err
				}
				if v.T.Sort == "Int" {
					return SV{v.T, t}, nil
				}
			}
		}
		return SV{}, fmt.Errorf("type assertion in a specification: only x.(*T) on an interface value")
	case *ast.BinaryExpr:
		return e.binary(n)
	case *ast.SelectorExpr:
		return e.selector(n)
	case *ast.IndexExpr:
		xv, err := e.eval(n.X)
		if err != nil {
			return SV{}, err
		}
		iv, err := e.eval(n.Index)
		if err != nil {
			return SV{}, err
		}
		switch u := xv.Typ.Underlying().(type) {
		case *types.Slice:
			a := Addr{kind: "elem", slice: xv.T, idx: iv.T, typ: u.Elem()}
			return SV{w.loadAddr(a, e.state(), u.Elem()), u.Elem()}, nil
		case *types.Array:
			return SV{T(fmt.Sprintf("(select %s %s)", xv.T.S, iv.T.S), w.sortOf(u.Elem())), u.Elem()}, nil
		case *types.Map:
			_, _, vals, dom := w.mapHeaps(e.state(), u)
			val := T(fmt.Sprintf("(select (select %s %s) %s)", vals.S, xv.T.S, iv.T.S), w.sortOf(u.Elem()))
			if !w.heapBound() {
				w.assume(fmt.Sprintf("(=> (not (select (select %s %s) %s)) (= %s %s))", dom.S, xv.T.S, iv.T.S, val.S, w.zero(u.Elem()).S))
				for _, f := range w.typeFacts(val, u.Elem()) {
					w.assume(f)
				}
			}
			return SV{val, u.Elem()}, nil
		}
		if isString(xv.Typ) {
			return SV{T(fmt.Sprintf("(sat %s %s)", xv.T.S, iv.T.S), "Int"), types.Typ[types.Uint8]}, nil
		}
		return SV{}, fmt.Errorf("index of %s unsupported", xv.Typ)
	case *ast.SliceExpr:
		xv, err := e.eval(n.X)
		if err != nil {
			return SV{}, err
		}
		lo := T("0", "Int")
		if n.Low != nil {
			v, err := e.eval(n.Low)
			if err != nil {
				return SV{}, err
			}
			lo = v.T
		}
		if isString(xv.Typ) {
			if n.High == nil {
				return SV{T(fmt.Sprintf("(ssuf %s %s)", xv.T.S, lo.S), "Str"), xv.Typ}, nil
			}
			hv, err := e.eval(n.High)
			if err != nil {
				return SV{}, err
			}
			return SV{T(fmt.Sprintf("(ssub %s %s %s)", xv.T.S, lo.S, hv.T.S), "Str"), xv.Typ}, nil
		}
		if isSlice(xv.Typ) {
			hi := T(fmt.Sprintf("(slen %s)", xv.T.S), "Int")
			if n.High != nil {
				hv, err := e.eval(n.High)
				if err != nil {
					return SV{}, err
				}
				hi = hv.T
			}
			return SV{T(fmt.Sprintf("(mk_slice (sbase %s) (+ (soff %s) %s) (- %s %s) (- (scap %s) %s))", xv.T.S, xv.T.S, lo.S, hi.S, lo.S, xv.T.S, lo.S), "Slice"), xv.Typ}, nil
		}
		return SV{}, fmt.Errorf("slice of %s unsupported", xv.Typ)
	case *ast.CallExpr:
		return e.call(n)
	}
	return SV{}, fmt.Errorf("unsupported spec expression %T", x)
}

func isUntyped(t types.Type) bool {
	b, ok := t.(*types.Basic)
	return ok && b.Info()&types.IsUntyped != 0
}

func (e *SpecEnv) binary(n *ast.BinaryExpr) (SV, error) {
	if n.Op == token.EQL || n.Op == token.NEQ {
		for _, pair := range [][2]ast.Expr{{n.X, n.Y}, {n.Y, n.X}} {
			if bl, ok := pair[1].(*ast.BasicLit); ok && bl.Kind == token.STRING {
				v, err := e.eval(pair[0])
				if err != nil {
					return SV{}, err
				}
				lit, _ := strconv.Unquote(bl.Value)
				t := e.g.w.strEqLit(v.T, lit)
				if n.Op == token.NEQ {
					t = "(not " + t + ")"
				}
				return SV{T(t, "Bool"), tBoolT}, nil
			}
		}
	}
	savedUnk := e.unk
	if n.Op == token.EQL || n.Op == token.NEQ {
		e.unk = true // operands of == have no polarity
	}
	l, err := e.eval(n.X)
	if err != nil {
		e.unk = savedUnk
		return SV{}, err
	}
	r, err := e.eval(n.Y)
	e.unk = savedUnk
	if err != nil {
		return SV{}, err
	}
	typ := l.Typ
	if isUntyped(typ) {
		typ = r.Typ
	}
	b := func(op string) (SV, error) {
		return SV{T(fmt.Sprintf("(%s %s %s)", op, l.T.S, r.T.S), "Bool"), tBoolT}, nil
	}
	ar := func(op string) (SV, error) {
		raw := fmt.Sprintf("(%s %s %s)", op, l.T.S, r.T.S)
		if isInt(typ) && isUnsigned(typ) && !isUntyped(typ) {
			raw = fmt.Sprintf("(mod %s %s)", raw, pow2(intBits(typ)))
		}
		return SV{T(raw, "Int"), typ}, nil
	}
	// s == nil on a slice: the nil slice is the zero slice value, as in the code
	if (n.Op == token.EQL || n.Op == token.NEQ) && l.T.Sort != r.T.Sort {
		if l.T.Sort == "Slice" && r.T.S == "0" {
			r.T = T("(mk_slice 0 0 0 0)", "Slice")
		} else if r.T.Sort == "Slice" && l.T.S == "0" {
			l.T = T("(mk_slice 0 0 0 0)", "Slice")
		}
	}
	switch n.Op {
	case token.LAND:
		return b("and")
	case token.LOR:
		return b("or")
	case token.EQL:
		if l.T.Sort != r.T.Sort {
			return SV{}, fmt.Errorf("== on different sorts %s / %s", l.T.Sort, r.T.Sort)
		}
		return b("=")
	case token.NEQ:
		if l.T.Sort != r.T.Sort {
			return SV{}, fmt.Errorf("!= on different sorts %s / %s", l.T.Sort, r.T.Sort)
		}
		return SV{T(fmt.Sprintf("(not (= %s %s))", l.T.S, r.T.S), "Bool"), tBoolT}, nil
	case token.LSS:
		return b("<")
	case token.LEQ:
		return b("<=")
	case token.GTR:
		return b(">")
	case token.GEQ:
		return b(">=")
	case token.ADD:
		if l.T.Sort == "Str" && r.T.Sort == "Str" {
			return SV{T(fmt.Sprintf("(scat %s %s)", l.T.S, r.T.S), "Str"), l.Typ}, nil
		}
		return ar("+")
	case token.SUB:
		return ar("-")
	case token.MUL:
		return ar("*")
	case token.REM:
		return SV{T(fmt.Sprintf("(mod %s %s)", l.T.S, r.T.S), "Int"), typ}, nil
	case token.QUO:
		return SV{T(fmt.Sprintf("(div %s %s)", l.T.S, r.T.S), "Int"), typ}, nil
	case token.SHL:
		if lit, ok := n.Y.(*ast.BasicLit); ok {
			k, _ := strconv.Atoi(lit.Value)
			return SV{T(fmt.Sprintf("(* %s %s)", l.T.S, pow2OrLit(k)), "Int"), typ}, nil
		}
	}
	return SV{}, fmt.Errorf("unsupported binary op %s", n.Op)
}

func pow2OrLit(k int) string {
	if k < 62 {
		return fmt.Sprint(int64(1) << uint(k))
	}
	return pow2(k)
}

func (e *SpecEnv) selector(n *ast.SelectorExpr) (SV, error) {
	g := e.g
	w := g.w
	// qualified identifier?
	if id, ok := n.X.(*ast.Ident); ok {
		if _, isLocal := e.bound[id.Name]; !isLocal {
			for _, imp := range e.specImports() {
				if imp.Name() == id.Name {
					if obj := imp.Scope().Lookup(n.Sel.Name); obj != nil {
						sp := g.w.prog.Package(imp)
						if sp == nil {
							return SV{}, fmt.Errorf("package %s not built", imp.Path())
						}
						return e.pkgObject(sp, obj)
					}
				}
			}
		}
	}
	xv, err := e.eval(n.X)
	if err != nil {
		return SV{}, err
	}
	obj, path, _ := types.LookupFieldOrMethod(xv.Typ, true, e.fn.Pkg.Pkg, n.Sel.Name)
	if obj == nil {
		// an unexported field of a type from another package (contracts may name the representation they specify,
		// e.g. the token cursor of the Dispenser embedded in a Controller): look it up from the packages of the
		// struct types reachable through embedding
		for _, p := range embeddedPkgs(xv.Typ, 0) {
			if o, pa, _ := types.LookupFieldOrMethod(xv.Typ, true, p, n.Sel.Name); o != nil {
				obj, path = o, pa
				break
			}
		}
	}
	fld, ok := obj.(*types.Var)
	if !ok {
		return SV{}, fmt.Errorf("%s is not a field (methods must be called)", n.Sel.Name)
	}
	cur, typ := xv.T, xv.Typ
	isRef := false // cur is a (derived) reference to an object of struct type typ
	for _, i := range path {
		if p, isPtr := typ.Underlying().(*types.Pointer); isPtr && !isRef {
			typ = p.Elem()
			isRef = true
		}
		if isRef {
			registerStruct(typ)
			st0 := typ.Underlying().(*types.Struct)
			ft := st0.Field(i).Type()
			if _, isStruct := ft.Underlying().(*types.Struct); isStruct {
				cur = w.subRef(typ, i, cur)
				typ = ft
				continue // still a reference, now to the embedded object
			}
			a := Addr{kind: "heap", key: "obj:" + types.TypeString(typ, nil), ref: cur, typ: typ}
			obj := w.loadAddr(a, e.state(), typ)
			cur, typ = w.project(obj, typ, []int{i})
			isRef = false
			continue
		}
		cur, typ = w.project(cur, typ, []int{i})
	}
	if isRef {
		// an embedded-by-value struct: hand back a (derived) reference so that an outer selector can continue
		return SV{cur, types.NewPointer(typ)}, nil
	}
	_ = fld
	if w.heapBound() {
		return SV{cur, typ}, nil // inside an axiom closed over heaps: no typing or allocation facts (see World.heapBound)
	}
	for _, f := range w.typeFacts(cur, typ) {
		w.assume(f)
	}
	// a slice read from a field is nil or has an allocated backing array (as loadAddr states for slices loaded directly)
	if isSlice(typ) {
		if al, ok := e.state().heap["alloc"]; ok {
			w.assume(fmt.Sprintf("(or (= (sbase %s) 0) (select %s (sbase %s)))", cur.S, al.S, cur.S))
		}
	} else if _, isMap := typ.Underlying().(*types.Map); isMap {
		if al, ok := e.state().heap["alloc"]; ok {
			w.assume(fmt.Sprintf("(or (= %s 0) (select %s %s))", cur.S, al.S, cur.S))
		}
	}
	return SV{cur, typ}, nil
}

func (e *SpecEnv) call(n *ast.CallExpr) (SV, error) {
	g := e.g
	w := g.w
	// (*T)(x): the dynamic value of an interface (or another pointer) viewed as *T, T a named type of this package. It is
	// only meaningful where the code itself asserts that type (x.(*T) panics otherwise); references are shared.
	if pe, ok := n.Fun.(*ast.ParenExpr); ok && len(n.Args) == 1 {
		if st, ok := pe.X.(*ast.StarExpr); ok {
			if id, ok := st.X.(*ast.Ident); ok {
				// the type is looked up in the package of the function the clause belongs to, then (contracts of
				// externs are written in the verified package's terms) in the package under verification
				var scopes []*types.Scope
				if e.fn != nil && e.fn.Pkg != nil {
					scopes = append(scopes, e.fn.Pkg.Pkg.Scope())
				}
				if e.g.f != nil && e.g.f.Pkg != nil {
					scopes = append(scopes, e.g.f.Pkg.Pkg.Scope())
				}
				for _, sc := range scopes {
					if obj := sc.Lookup(id.Name); obj != nil {
						if _, ok := obj.(*types.TypeName); ok {
							v, err := e.eval(n.Args[0])
							if err != nil {
								return SV{}, err
							}
							return SV{v.T, types.NewPointer(obj.Type())}, nil
						}
					}
				}
			}
		}
	}
	// (*pkg.T)(x): the same view for a type of an imported package
	if pe, ok := n.Fun.(*ast.ParenExpr); ok && len(n.Args) == 1 {
		if st, ok := pe.X.(*ast.StarExpr); ok {
			if sel, ok := st.X.(*ast.SelectorExpr); ok {
				if t, err := e.resolveType(sel); err == nil {
					v, err := e.eval(n.Args[0])
					if err != nil {
						return SV{}, err
					}
					return SV{v.T, types.NewPointer(t)}, nil
				}
			}
		}
	}
	if id, ok := n.Fun.(*ast.Ident); ok {
		switch id.Name {
		case "old":
			saved := e.inOld
			e.inOld = true
			v, err := e.eval(n.Args[0])
			e.inOld = saved
			return v, err
		case "is":
			// is(x, T): the interface value x holds a value of the (non-pointer) named type T of this package
			if len(n.Args) != 2 {
				return SV{}, fmt.Errorf("is(x, T)")
			}
			tid, ok := n.Args[1].(*ast.Ident)
			if !ok {
				return SV{}, fmt.Errorf("is(x, T): T must be a type name of the package")
			}
			var tt types.Type
			for _, p := range []*ssa.Package{e.fn.Pkg, e.g.f.Pkg} {
				if p != nil {
					if obj := p.Pkg.Scope().Lookup(tid.Name); obj != nil {
						if _, isT := obj.(*types.TypeName); isT {
							tt = obj.Type()
							break
						}
					}
				}
			}
			if tt == nil {
				return SV{}, fmt.Errorf("is(x, T): unknown type %s", tid.Name)
			}
			if _, isPtr := tt.Underlying().(*types.Pointer); isPtr {
				return SV{}, fmt.Errorf("is(x, T): pointer payloads carry no type tag")
			}
			xv, err := e.eval(n.Args[0])
			if err != nil {
				return SV{}, err
			}
			return SV{T(fmt.Sprintf("(= (%s %s) %d)", w.itypeFn(), xv.T.S, typeID(tt)), "Bool"), tBoolT}, nil
		case "ite":
			// ite(c, a, b): a when c holds, b otherwise (for ghost updates that depend on what a call returned)
			if len(n.Args) != 3 {
				return SV{}, fmt.Errorf("ite(c, a, b)")
			}
			savedRole := e.unk
			e.unk = true
			c, err := e.evalBool(n.Args[0])
			e.unk = savedRole
			if err != nil {
				return SV{}, err
			}
			a, err := e.eval(n.Args[1])
			if err != nil {
				return SV{}, err
			}
			b, err := e.eval(n.Args[2])
			if err != nil {
				return SV{}, err
			}
			return SV{T(fmt.Sprintf("(ite %s %s %s)", c.S, a.T.S, b.T.S), a.T.Sort), a.Typ}, nil
		case "implies":
			e.neg = !e.neg
			a, err := e.evalBool(n.Args[0])
			e.neg = !e.neg
			if err != nil {
				return SV{}, err
			}
			b, err := e.evalBool(n.Args[1])
			if err != nil {
				return SV{}, err
			}
			return SV{T(fmt.Sprintf("(=> %s %s)", a.S, b.S), "Bool"), tBoolT}, nil
		case "forallT", "existsT":
			// forallT(k, T, body): quantifier over all values of Go type T
			if len(n.Args) != 3 {
				return SV{}, fmt.Errorf("%s(k, T, body)", id.Name)
			}
			kid, ok := n.Args[0].(*ast.Ident)
			if !ok {
				return SV{}, fmt.Errorf("bound variable must be an identifier")
			}
			bt, err := e.resolveType(n.Args[1])
			if err != nil {
				return SV{}, err
			}
			w.n++
			bv := fmt.Sprintf("%s_q%d", kid.Name, w.n)
			srt := w.sortOf(bt)
			if e.boundTypes == nil {
				e.boundTypes = map[string]types.Type{}
			}
			savedB, had := e.bound[kid.Name]
			savedT := e.boundTypes[kid.Name]
			e.bound[kid.Name] = T(bv, srt)
			e.boundTypes[kid.Name] = bt
			w.binders = append(w.binders, binderT{bv, srt})
			body, err := e.evalBool(n.Args[2])
			w.binders = w.binders[:len(w.binders)-1]
			if had {
				e.bound[kid.Name] = savedB
				e.boundTypes[kid.Name] = savedT
			} else {
				delete(e.bound, kid.Name)
				delete(e.boundTypes, kid.Name)
			}
			if err != nil {
				return SV{}, err
			}
			if id.Name == "forallT" {
				return SV{T(fmt.Sprintf("(forall ((%s %s)) %s)", bv, srt, body.S), "Bool"), tBoolT}, nil
			}
			return SV{T(fmt.Sprintf("(exists ((%s %s)) %s)", bv, srt, body.S), "Bool"), tBoolT}, nil
		case "forall", "exists":
			if len(n.Args) != 4 {
				return SV{}, fmt.Errorf("%s(k, lo, hi, body)", id.Name)
			}
			kid, ok := n.Args[0].(*ast.Ident)
			if !ok {
				return SV{}, fmt.Errorf("bound variable must be an identifier")
			}
			lo, err := e.eval(n.Args[1])
			if err != nil {
				return SV{}, err
			}
			hi, err := e.eval(n.Args[2])
			if err != nil {
				return SV{}, err
			}
			w.n++
			bv := fmt.Sprintf("%s_q%d", kid.Name, w.n)
			savedB, had := e.bound[kid.Name]
			e.bound[kid.Name] = T(bv, "Int")
			w.binders = append(w.binders, binderT{bv, "Int"})
			body, err := e.evalBool(n.Args[3])
			w.binders = w.binders[:len(w.binders)-1]
			if had {
				e.bound[kid.Name] = savedB
			} else {
				delete(e.bound, kid.Name)
			}
			if err != nil {
				return SV{}, err
			}
			rng := fmt.Sprintf("(and (<= %s %s) (< %s %s))", lo.T.S, bv, bv, hi.T.S)
			if id.Name == "forall" {
				return SV{T(fmt.Sprintf("(forall ((%s Int)) (=> %s %s))", bv, rng, body.S), "Bool"), tBoolT}, nil
			}
			// A bounded existential that will be skolemised (assumed positively / asserted negatively) names its witness with
			// wit(j); one that will have to be instantiated (the other way round) additionally offers wit(j) as a trigger,
			// so that the witnesses of the assumptions are tried. wit is true everywhere: the formulas are equivalent.
			eff := e.role
			if e.neg {
				eff = -eff
			}
			if e.unk {
				eff = 0
			}
			if !w.pureDecl["wit"] {
				w.pureDecl["wit"] = true
				w.decls = append(w.decls, "(declare-fun wit (Int) Bool)")
				w.assumeGlobal("(forall ((j Int)) (! (wit j) :pattern ((wit j))))")
			}
			switch {
			case eff > 0:
				return SV{T(fmt.Sprintf("(exists ((%s Int)) (and (wit %s) %s %s))", bv, bv, rng, body.S), "Bool"), tBoolT}, nil
			case eff < 0:
				return SV{T(fmt.Sprintf("(or (exists ((%s Int)) (and %s %s)) (exists ((%s Int)) (! (and (wit %s) %s %s) :pattern ((wit %s)))))", bv, rng, body.S, bv, bv, rng, body.S, bv), "Bool"), tBoolT}, nil
			}
			return SV{T(fmt.Sprintf("(exists ((%s Int)) (and %s %s))", bv, rng, body.S), "Bool"), tBoolT}, nil
		case "has":
			mv, err := e.eval(n.Args[0])
			if err != nil {
				return SV{}, err
			}
			kv, err := e.eval(n.Args[1])
			if err != nil {
				return SV{}, err
			}
			mt, ok := mv.Typ.Underlying().(*types.Map)
			if !ok {
				return SV{}, fmt.Errorf("has(m,k): m is not a map")
			}
			_, _, _, dom := w.mapHeaps(e.state(), mt)
			return SV{T(fmt.Sprintf("(select (select %s %s) %s)", dom.S, mv.T.S, kv.T.S), "Bool"), tBoolT}, nil
		case "unchanged":
			// unchanged("Type.field"): that field has its entry value in every object
			bl, ok := n.Args[0].(*ast.BasicLit)
			if !ok {
				return SV{}, fmt.Errorf(`unchanged("Type.field")`)
			}
			spec, _ := strconv.Unquote(bl.Value)
			parts := strings.SplitN(spec, ".", 2)
			for k, h1 := range e.st.heap {
				if _, _, isF := fldParts(k); isF && heapKeyMatches(k, spec) {
					if h0, ok := e.old.heap[k]; ok {
						return SV{T(fmt.Sprintf("(= %s %s)", h1.S, h0.S), "Bool"), tBoolT}, nil
					}
				}
				if !strings.HasPrefix(k, "obj:") || !heapKeyMatches(k, spec) {
					continue
				}
				stt := g.structByKey(k)
				srt := w.structSorts[strings.TrimPrefix(k, "obj:")]
				h0, ok := e.old.heap[k]
				if stt == nil || !ok {
					continue
				}
				for i := 0; i < stt.NumFields(); i++ {
					if stt.Field(i).Name() == parts[1] {
						w.n++
						rv := fmt.Sprintf("r_q%d", w.n)
						return SV{T(fmt.Sprintf("(forall ((%s Int)) (= (%s_f%d (select %s %s)) (%s_f%d (select %s %s))))", rv, srt, i, h1.S, rv, srt, i, h0.S, rv), "Bool"), tBoolT}, nil
					}
				}
			}
			return SV{}, fmt.Errorf("unchanged: no such field %s", spec)
		case "fresh":
			// fresh(x): the slice (or object) x was not allocated in the pre-state: writing through it cannot be seen by the caller's frame
			v, err := e.eval(n.Args[0])
			if err != nil {
				return SV{}, err
			}
			al0, ok := e.old.heap["alloc"]
			if !ok {
				return SV{tTrue, tBoolT}, nil
			}
			ref := v.T.S
			if v.T.Sort == "Slice" {
				ref = fmt.Sprintf("(sbase %s)", v.T.S)
			}
			if al1, ok := e.st.heap["alloc"]; ok && !e.atReturn && e.fn != e.g.f {
				// at a call site: the callee's result joins the allocation set of the caller's state
				e.st.heap["alloc"] = T(fmt.Sprintf("(store %s %s true)", al1.S, ref), al1.Sort)
			}
			return SV{T(fmt.Sprintf("(and (> %s 0) (not (select %s %s)))", ref, al0.S, ref), "Bool"), tBoolT}, nil
		case "unchanged_except":
			// unchanged_except("Type.field", ref): that field has its old value in every object other than ref
			bl, ok := n.Args[0].(*ast.BasicLit)
			if !ok || len(n.Args) != 2 {
				return SV{}, fmt.Errorf(`unchanged_except("Type.field", ref)`)
			}
			spec, _ := strconv.Unquote(bl.Value)
			rv, err := e.eval(n.Args[1])
			if err != nil {
				return SV{}, err
			}
			if strings.HasPrefix(spec, "map:") {
				// unchanged_except("map:<map type>", m): every map of that type other than m has its old contents and domain
				var parts []string
				for _, pre := range []string{"MV:", "MD:"} {
					k := pre + strings.TrimPrefix(spec, "map:")
					h1, ok1 := e.st.heap[k]
					h0, ok0 := e.old.heap[k]
					if !ok1 || !ok0 {
						return SV{}, fmt.Errorf("unchanged_except: no map heap %s", k)
					}
					w.n++
					xv := fmt.Sprintf("x_q%d", w.n)
					parts = append(parts, fmt.Sprintf("(forall ((%s Int)) (=> (not (= %s %s)) (= (select %s %s) (select %s %s))))", xv, xv, rv.T.S, h1.S, xv, h0.S, xv))
				}
				return SV{T("(and "+strings.Join(parts, " ")+")", "Bool"), tBoolT}, nil
			}
			for k, h1 := range e.st.heap {
				if _, _, isF := fldParts(k); isF && heapKeyMatches(k, spec) {
					if h0, ok := e.old.heap[k]; ok {
						w.n++
						xv := fmt.Sprintf("x_q%d", w.n)
						return SV{T(fmt.Sprintf("(forall ((%s Int)) (=> (not (= %s %s)) (= (select %s %s) (select %s %s))))", xv, xv, rv.T.S, h1.S, xv, h0.S, xv), "Bool"), tBoolT}, nil
					}
				}
			}
			return SV{}, fmt.Errorf("unchanged_except: no such field %s", spec)
		case "panicking":
			if e.g.symPanicking != nil && e.fn == e.g.f && !e.g.panicking {
				return SV{*e.g.symPanicking, tBoolT}, nil
			}
			if e.g.panicking {
				return SV{T("true", "Bool"), tBoolT}, nil
			}
			return SV{T("false", "Bool"), tBoolT}, nil
		case "held":
			// ghost: number of times the mutex denoted by the argument is currently held
			var m Term
			if gid, ok := n.Args[0].(*ast.Ident); ok && e.fn.Pkg.Pkg.Scope().Lookup(gid.Name) != nil {
				gl := e.fn.Pkg.Var(gid.Name)
				m = w.globalID("G:" + gl.String())
			} else if sel, ok := n.Args[0].(*ast.SelectorExpr); ok {
				recv, err := e.eval(sel.X)
				if err != nil {
					return SV{}, err
				}
				pt := recv.Typ.Underlying().(*types.Pointer).Elem()
				obj, path, _ := types.LookupFieldOrMethod(recv.Typ, true, e.fn.Pkg.Pkg, sel.Sel.Name)
				_ = obj
				_ = pt
				m = w.subRef(pt, path[0], recv.T)
			} else {
				return SV{}, fmt.Errorf("held(x): x must be a package-level mutex or a field")
			}
			arr := w.heapArr(e.state(), "ghost:held", "Int")
			return SV{T(fmt.Sprintf("(select %s %s)", arr.S, m.S), "Int"), tInt}, nil
		case "len":
			v, err := e.eval(n.Args[0])
			if err != nil {
				return SV{}, err
			}
			switch {
			case isString(v.Typ):
				return SV{T(fmt.Sprintf("(strlen %s)", v.T.S), "Int"), tInt}, nil
			case isSlice(v.Typ):
				return SV{T(fmt.Sprintf("(slen %s)", v.T.S), "Int"), tInt}, nil
			}
			if arr, ok := v.Typ.Underlying().(*types.Array); ok {
				return SV{T(fmt.Sprint(arr.Len()), "Int"), tInt}, nil
			}
			return SV{}, fmt.Errorf("len of %s", v.Typ)
		case "cap":
			v, err := e.eval(n.Args[0])
			if err != nil {
				return SV{}, err
			}
			return SV{T(fmt.Sprintf("(scap %s)", v.T.S), "Int"), tInt}, nil
		}
		// conversion to a basic type?
		if obj := types.Universe.Lookup(id.Name); obj != nil {
			if tn, ok := obj.(*types.TypeName); ok && len(n.Args) == 1 {
				v, err := e.eval(n.Args[0])
				if err != nil {
					return SV{}, err
				}
				tt := tn.Type()
				if isString(tt) && v.T.Sort == "Int" {
					return SV{w.chr(v.T), tt}, nil
				}
				if isInt(tt) {
					if isUnsigned(tt) {
						return SV{T(fmt.Sprintf("(mod %s %s)", v.T.S, pow2(intBits(tt))), "Int"), tt}, nil
					}
					return SV{v.T, tt}, nil
				}
				return SV{}, fmt.Errorf("conversion to %s unsupported", id.Name)
			}
		}
		if ghostFns[id.Name] {
			av, err := e.eval(n.Args[0])
			if err != nil {
				return SV{}, err
			}
			arr := w.heapArr(e.state(), "ghost:"+id.Name, "Int")
			return SV{T(fmt.Sprintf("(select %s %s)", arr.S, av.T.S), "Int"), tInt}, nil
		}
		if df, ok := defines[id.Name]; ok {
			saved := map[string]*Term{}
			savedT := map[string]types.Type{}
			if e.boundTypes == nil {
				e.boundTypes = map[string]types.Type{}
			}
			var vals []SV
			for _, a := range n.Args {
				v, err := e.eval(a)
				if err != nil {
					return SV{}, err
				}
				vals = append(vals, v)
			}
			for i, b := range df.Params {
				if old, had := e.bound[b.Name]; had {
					o := old
					saved[b.Name] = &o
					savedT[b.Name] = e.boundTypes[b.Name]
				} else {
					saved[b.Name] = nil
				}
				e.bound[b.Name] = vals[i].T
				e.boundTypes[b.Name] = vals[i].Typ
			}
			r, err := e.eval(df.Body)
			for k, v := range saved {
				if v == nil {
					delete(e.bound, k)
					delete(e.boundTypes, k)
				} else {
					e.bound[k] = *v
					e.boundTypes[k] = savedT[k]
				}
			}
			return r, err
		}
		if id.Name == "ret" {
			// ret(i, call): i-th result of a multi-result pure call
			lit, ok := n.Args[0].(*ast.BasicLit)
			if !ok {
				return SV{}, fmt.Errorf("ret(i, call): i must be a literal")
			}
			idx, _ := strconv.Atoi(lit.Value)
			saved := e.retIndex
			e.retIndex = idx + 1
			v, err := e.eval(n.Args[1])
			e.retIndex = saved
			return v, err
		}
		if sf, ok := specFuncs[id.Name]; ok {
			var args []Term
			var sorts []string
			for _, a := range n.Args {
				v, err := e.eval(a)
				if err != nil {
					return SV{}, err
				}
				args = append(args, v.T)
				sorts = append(sorts, v.T.Sort)
			}
			rt, err := e.resolveType(sf.Result)
			if err != nil {
				return SV{}, err
			}
			name := "sf_" + sf.Name
			if !w.pureDecl[name] {
				w.pureDecl[name] = true
				w.decls = append(w.decls, fmt.Sprintf("(declare-fun %s (%s) %s)", name, strings.Join(sorts, " "), w.sortOf(rt)))
			}
			var as []string
			for _, a := range args {
				as = append(as, a.S)
			}
			app := T(fmt.Sprintf("(%s %s)", name, strings.Join(as, " ")), w.sortOf(rt))
			// specification integers are mathematical: no machine-range facts for spec function results
			return SV{app, rt}, nil
		}
		// package-level function call (must be pure)
		if e.fn.Pkg != nil {
		if fn := e.fn.Pkg.Func(id.Name); fn != nil {
			return e.pureCall(fn, nil, n.Args)
		}
		}
		// named type conversion within the package (e.g. Path(x))
		if obj := e.fn.Pkg.Pkg.Scope().Lookup(id.Name); obj != nil {
			if _, ok := obj.(*types.TypeName); ok && len(n.Args) == 1 {
				v, err := e.eval(n.Args[0])
				if err != nil {
					return SV{}, err
				}
				return SV{v.T, obj.Type()}, nil
			}
		}
		// a function-typed parameter or local applied to arguments: the same pure application the engine uses for a
		// dynamic call with one result in the code
		if fv, err := e.ident(id); err == nil {
			if sig, ok := fv.Typ.Underlying().(*types.Signature); ok && sig.Results().Len() == 1 {
				var args []Term
				for _, a := range n.Args {
					v, err := e.eval(a)
					if err != nil {
						return SV{}, err
					}
					args = append(args, v.T)
				}
				return SV{g.dynApply(fv.T, sig, args), sig.Results().At(0).Type()}, nil
			}
		}
		return SV{}, fmt.Errorf("unknown function %s in spec", id.Name)
	}
	// method call x.M(args) -> pure method
	if sel, ok := n.Fun.(*ast.SelectorExpr); ok {
		// package-qualified function?
		if id, ok := sel.X.(*ast.Ident); ok {
			for _, imp := range e.specImports() {
				if imp.Name() == id.Name {
					sp := g.w.prog.Package(imp)
					if sp != nil {
						if fn := sp.Func(sel.Sel.Name); fn != nil {
							return e.pureCall(fn, nil, n.Args)
						}
					}
					if obj := imp.Scope().Lookup(sel.Sel.Name); obj != nil {
						if tn, ok := obj.(*types.TypeName); ok && len(n.Args) == 1 {
							v, err := e.eval(n.Args[0])
							if err != nil {
								return SV{}, err
							}
							return SV{v.T, tn.Type()}, nil
						}
					}
					return SV{}, fmt.Errorf("unknown function %s.%s", id.Name, sel.Sel.Name)
				}
			}
		}
		savedRI := e.retIndex
		e.retIndex = 0 // ret(i, …) selects a result of the OUTER call, not of calls inside its receiver or arguments
		recv, err := e.eval(sel.X)
		e.retIndex = savedRI
		if err != nil {
			return SV{}, err
		}
		obj, mpath, _ := types.LookupFieldOrMethod(recv.Typ, true, e.fn.Pkg.Pkg, sel.Sel.Name)
		m, ok := obj.(*types.Func)
		if ok && len(mpath) > 1 {
			// a method promoted through embedding (p.Val() on a *parser that embeds Dispenser): the receiver is the
			// embedded object, reached the way the code reaches it (derived reference of a by-value field, or the
			// pointer stored in the field)
			cur, typ := recv.T, recv.Typ
			for _, i := range mpath[:len(mpath)-1] {
				if pt, isPtr := typ.Underlying().(*types.Pointer); isPtr {
					typ = pt.Elem()
				} else {
					return SV{}, fmt.Errorf("promoted method %s on a struct value: write the embedded field explicitly", sel.Sel.Name)
				}
				stt, isS := typ.Underlying().(*types.Struct)
				if !isS {
					return SV{}, fmt.Errorf("promoted method %s: unexpected embedding", sel.Sel.Name)
				}
				registerStruct(typ)
				ft := stt.Field(i).Type()
				if _, isStruct := ft.Underlying().(*types.Struct); isStruct {
					cur = w.subRef(typ, i, cur)
					typ = types.NewPointer(ft)
				} else {
					a := Addr{kind: "heap", key: "obj:" + types.TypeString(typ, nil), ref: cur, typ: typ}
					o := w.loadAddr(a, e.state(), typ)
					cur, typ = w.project(o, typ, []int{i})
				}
			}
			recv = SV{cur, typ}
		}
		if !ok {
			// call of a func-typed field: modelled as a pure dynamic application
			fv, err := e.selector(sel)
			if err != nil {
				return SV{}, err
			}
			sig, isSig := fv.Typ.Underlying().(*types.Signature)
			if !isSig {
				return SV{}, fmt.Errorf("%s is neither a method nor a func-typed field", sel.Sel.Name)
			}
			var args []Term
			for _, a := range n.Args {
				v, err := e.eval(a)
				if err != nil {
					return SV{}, err
				}
				args = append(args, v.T)
			}
			return SV{g.dynApply(fv.T, sig, args), sig.Results().At(0).Type()}, nil
		}
		if _, isIface := recv.Typ.Underlying().(*types.Interface); isIface {
			ctr, ok := g.all["invoke:"+m.FullName()]
			if ok {
				usedContracts[ctr.Func] = true
			}
			if !ok || !ctr.Pure {
				return SV{}, fmt.Errorf("interface method %s used in a specification but not declared pure", m.FullName())
			}
			args := []Term{recv.T}
			for _, a := range n.Args {
				v, err := e.eval(a)
				if err != nil {
					return SV{}, err
				}
				args = append(args, v.T)
			}
			return SV{g.applyPureIface(m, ctr, args, e.state()), m.Type().(*types.Signature).Results().At(0).Type()}, nil
		}
		fn := g.w.prog.FuncValue(m)
		if fn == nil {
			return SV{}, fmt.Errorf("no ssa function for method %s", m.FullName())
		}
		return e.pureCall(fn, &recv, n.Args)
	}
	return SV{}, fmt.Errorf("unsupported call in spec")
}

func (e *SpecEnv) pureCall(fn *ssa.Function, recv *SV, argExprs []ast.Expr) (SV, error) {
	g := e.g
	ctr := g.lookupContract(fn)
	if ctr == nil || !ctr.Pure {
		return SV{}, fmt.Errorf("%s used in a specification but not declared pure", fn.String())
	}
	var args []Term
	if recv != nil {
		rt := *recv
		// value-receiver method called through a pointer: Go dereferences implicitly
		if sig := fn.Signature; sig.Recv() != nil {
			if _, recvIsPtr := sig.Recv().Type().Underlying().(*types.Pointer); !recvIsPtr {
				if pt, isPtr := rt.Typ.Underlying().(*types.Pointer); isPtr {
					if _, isS := pt.Elem().Underlying().(*types.Struct); isS {
						registerStruct(pt.Elem())
						a := Addr{kind: "heap", key: "obj:" + types.TypeString(pt.Elem(), nil), ref: rt.T, typ: pt.Elem()}
						rt = SV{g.w.loadAddr(a, e.state(), pt.Elem()), pt.Elem()}
					}
				}
			}
		}
		args = append(args, rt.T)
	}
	savedRI := e.retIndex
	e.retIndex = 0
	for _, a := range argExprs {
		v, err := e.eval(a)
		if err != nil {
			e.retIndex = savedRI
			return SV{}, err
		}
		args = append(args, v.T)
	}
	e.retIndex = savedRI
	// make sure the object heaps the function reads exist in this state
	for _, p := range fn.Params {
		if pt, ok := p.Type().Underlying().(*types.Pointer); ok {
			if stt, isStruct := pt.Elem().Underlying().(*types.Struct); isStruct {
				registerStruct(pt.Elem())
				if fieldMode {
					for i := 0; i < stt.NumFields(); i++ {
						g.w.heapArr(e.state(), fldKey("obj:"+types.TypeString(pt.Elem(), nil), i), g.w.sortOf(stt.Field(i).Type()))
					}
				} else {
					g.w.heapArr(e.state(), "obj:"+types.TypeString(pt.Elem(), nil), g.w.sortOf(pt.Elem()))
				}
			}
		}
	}
	ri := 0
	if e.retIndex > 0 {
		ri = e.retIndex - 1
	}
	app := g.applyPureIdx(fn, ctr, args, e.state(), e.depth, ri)
	return SV{app, fn.Signature.Results().At(ri).Type()}, nil
}

// resolveType maps a type expression of a spec/axiom binder to a go/types type.
func (e *SpecEnv) resolveType(x ast.Expr) (types.Type, error) {
	switch n := x.(type) {
	case *ast.Ident:
		if obj := types.Universe.Lookup(n.Name); obj != nil {
			if tn, ok := obj.(*types.TypeName); ok {
				return tn.Type(), nil
			}
		}
		if e.pkgScope() != nil {
			if obj := e.pkgScope().Lookup(n.Name); obj != nil {
				if tn, ok := obj.(*types.TypeName); ok {
					return tn.Type(), nil
				}
			}
		}
	case *ast.SelectorExpr:
		if id, ok := n.X.(*ast.Ident); ok && e.g != nil && e.g.f.Pkg != nil {
			for _, imp := range e.g.f.Pkg.Pkg.Imports() {
				if imp.Name() == id.Name {
					if obj := imp.Scope().Lookup(n.Sel.Name); obj != nil {
						if tn, ok := obj.(*types.TypeName); ok {
							return tn.Type(), nil
						}
					}
				}
			}
		}
	case *ast.ArrayType:
		el, err := e.resolveType(n.Elt)
		if err != nil {
			return nil, err
		}
		if n.Len == nil {
			return types.NewSlice(el), nil
		}
	case *ast.StarExpr:
		el, err := e.resolveType(n.X)
		if err != nil {
			return nil, err
		}
		return types.NewPointer(el), nil
	case *ast.MapType:
		k, err := e.resolveType(n.Key)
		if err != nil {
			return nil, err
		}
		v, err := e.resolveType(n.Value)
		if err != nil {
			return nil, err
		}
		return types.NewMap(k, v), nil
	}
	return nil, fmt.Errorf("cannot resolve spec type %T", x)
}

// specImports: the packages a specification may name: the imports of the function the clause belongs to, then (for
// contracts of library functions evaluated in the verified function's unit) the imports of the function under verification.
func (e *SpecEnv) specImports() []*types.Package {
	var out []*types.Package
	if e.fn != nil && e.fn.Pkg != nil {
		out = append(out, e.fn.Pkg.Pkg.Imports()...)
	}
	if e.g != nil && e.g.f != nil && e.g.f.Pkg != nil && (e.fn == nil || e.fn.Pkg != e.g.f.Pkg) {
		out = append(out, e.g.f.Pkg.Pkg.Imports()...)
	}
	return out
}

func (e *SpecEnv) pkgScope() *types.Scope {
	if e.g != nil && e.g.f != nil && e.g.f.Pkg != nil {
		return e.g.f.Pkg.Pkg.Scope()
	}
	return nil
}

func describe(x ast.Expr) string {
	var sb strings.Builder
	ast.Fprint(&sb, token.NewFileSet(), x, nil)
	return sb.String()
}

// embeddedPkgs lists the packages that define t and the struct types embedded in it (transitively).
func embeddedPkgs(t types.Type, depth int) []*types.Package {
	var out []*types.Package
	if depth > 4 {
		return out
	}
	if p, ok := t.Underlying().(*types.Pointer); ok {
		t = p.Elem()
	}
	if n, ok := t.(*types.Named); ok && n.Obj().Pkg() != nil {
		out = append(out, n.Obj().Pkg())
	}
	if st, ok := t.Underlying().(*types.Struct); ok {
		for i := 0; i < st.NumFields(); i++ {
			if st.Field(i).Embedded() {
				out = append(out, embeddedPkgs(st.Field(i).Type(), depth+1)...)
			}
		}
	}
	return out
}
