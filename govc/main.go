// govc-proto: throw-away prototype of the contract mode of the planned verifier.
// usage: govc-proto <contracts-file> <func-regexp> <packages...>
package main

import (
	"go/ast"
	"go/constant"
	"go/token"
	"bufio"
	"bytes"
	"fmt"
	"go/types"
	"os"
	"os/exec"
	"sort"
	"strings"
	"sync"

	"golang.org/x/tools/go/ssa"
)

const prelude = `(declare-sort Str 0)
(declare-fun strlen (Str) Int)
(assert (forall ((s Str)) (! (and (>= (strlen s) 0) (<= (strlen s) 9223372036854775807)) :pattern ((strlen s)))))
(declare-datatypes ((Slice 0)) (((mk_slice (sbase Int) (soff Int) (slen Int) (scap Int)))))
(declare-fun sat (Str Int) Int)
(declare-fun ssub (Str Int Int) Str)
(declare-fun ssuf (Str Int) Str)
(declare-fun scat (Str Str) Str)
(assert (forall ((s Str) (i Int)) (! (and (<= 0 (sat s i)) (<= (sat s i) 255)) :pattern ((sat s i)))))
(assert (forall ((s Str) (a Int) (b Int)) (! (=> (and (<= 0 a) (<= a b) (<= b (strlen s))) (= (strlen (ssub s a b)) (- b a))) :pattern ((ssub s a b)))))
(assert (forall ((s Str) (a Int) (b Int) (i Int)) (! (=> (and (<= 0 a) (<= a b) (<= b (strlen s)) (<= 0 i) (< i (- b a))) (= (sat (ssub s a b) i) (sat s (+ a i)))) :pattern ((sat (ssub s a b) i)))))
(assert (forall ((s Str) (a Int)) (! (=> (and (<= 0 a) (<= a (strlen s))) (= (strlen (ssuf s a)) (- (strlen s) a))) :pattern ((ssuf s a)))))
(assert (forall ((s Str) (a Int) (i Int)) (! (=> (and (<= 0 a) (<= a (strlen s)) (<= 0 i) (< i (- (strlen s) a))) (= (sat (ssuf s a) i) (sat s (+ a i)))) :pattern ((sat (ssuf s a) i)))))
(assert (forall ((s Str) (a Int) (b Int)) (! (=> (and (<= 0 a) (<= a (strlen s)) (<= 0 b) (<= b (- (strlen s) a))) (= (ssuf (ssuf s a) b) (ssuf s (+ a b)))) :pattern ((ssuf (ssuf s a) b)))))
(assert (forall ((s Str)) (! (= (ssuf s 0) s) :pattern ((ssuf s 0)))))
(assert (forall ((a Str) (b Str)) (! (= (strlen (scat a b)) (+ (strlen a) (strlen b))) :pattern ((scat a b)))))
(assert (forall ((a Str) (b Str) (i Int)) (! (=> (and (<= 0 i) (< i (strlen a))) (= (sat (scat a b) i) (sat a i))) :pattern ((sat (scat a b) i)))))
(assert (forall ((a Str) (b Str) (i Int)) (! (=> (and (<= (strlen a) i) (< i (+ (strlen a) (strlen b)))) (= (sat (scat a b) i) (sat b (- i (strlen a))))) :pattern ((sat (scat a b) i)))))
`

func allFuncs(prog *ssa.Program, p *ssa.Package) []*ssa.Function {
	var out []*ssa.Function
	seen := map[*ssa.Function]bool{}
	var add func(f *ssa.Function)
	add = func(f *ssa.Function) {
		if f == nil || seen[f] || (f.Synthetic != "" && f.Name() != "init") || f.Blocks == nil {
			return
		}
		seen[f] = true
		out = append(out, f)
		for _, a := range f.AnonFuncs {
			add(a)
		}
	}
	for _, m := range p.Members {
		switch m := m.(type) {
		case *ssa.Function:
			add(m)
		case *ssa.Type:
			for _, t := range []types.Type{m.Type(), types.NewPointer(m.Type())} {
				ms := prog.MethodSets.MethodSet(t)
				for i := 0; i < ms.Len(); i++ {
					add(prog.MethodValue(ms.At(i)))
				}
			}
		}
	}
	sort.Slice(out, func(i, j int) bool { return out[i].Pos() < out[j].Pos() })
	return out
}

func rootAlloc(v ssa.Value) *ssa.Alloc {
	for {
		switch x := v.(type) {
		case *ssa.Alloc:
			return x
		case *ssa.FieldAddr:
			v = x.X
		case *ssa.IndexAddr:
			v = x.X
		default:
			return nil
		}
	}
}

// staticHeapKey approximates which heap key a store through addr touches.
func staticHeapKey(addr ssa.Value, escaping map[*ssa.Alloc]bool) string {
	for {
		switch x := addr.(type) {
		case *ssa.Alloc:
			if escaping[x] {
				et := x.Type().Underlying().(*types.Pointer).Elem()
				if _, isStruct := et.Underlying().(*types.Struct); !isStruct {
					return "ptr:" + types.TypeString(et, nil)
				}
				return "obj:" + types.TypeString(et, nil)
			}
			return ""
		case *ssa.FieldAddr:
			if fieldMode {
				bk := staticHeapKey(x.X, escaping)
				if strings.HasPrefix(bk, "obj:") {
					if p, ok := x.X.Type().Underlying().(*types.Pointer); ok {
						if stt, ok := p.Elem().Underlying().(*types.Struct); ok {
							ft := stt.Field(x.Field).Type()
							if _, isStruct := ft.Underlying().(*types.Struct); isStruct {
								return "obj:" + types.TypeString(ft, nil)
							}
							return fldKey("obj:"+types.TypeString(p.Elem(), nil), x.Field)
						}
					}
				}
				return bk
			}
			addr = x.X
			continue
		case *ssa.IndexAddr:
			if sl, ok := x.X.Type().Underlying().(*types.Slice); ok {
				return "E:" + elemKey(sl.Elem())
			}
			if p, ok := x.X.Type().Underlying().(*types.Pointer); ok {
				if at, ok := p.Elem().Underlying().(*types.Array); ok {
					return "E:" + elemKey(at.Elem())
				}
			}
			return "*"
		case *ssa.Global:
			return "G:" + x.String()
		default:
			if p, ok := addr.Type().Underlying().(*types.Pointer); ok {
				if _, isStruct := p.Elem().Underlying().(*types.Struct); isStruct {
					return "obj:" + types.TypeString(p.Elem(), nil)
				}
				return "ptr:" + types.TypeString(p.Elem(), nil)
			}
			return "*"
		}
	}
}

type monoCell struct {
	al    *ssa.Alloc
	up    bool
	entry string
}

// monotoneCells finds the non-escaping integer locals that the loop body only ever changes by adding (subtracting) a
// positive constant: x++, x += 2, x--.
func (g *Gen) monotoneCells(body map[*ssa.BasicBlock]bool) []monoCell {
	dir := map[*ssa.Alloc]int{} // 1 up, -1 down, 2 mixed/other
	for b := range body {
		for _, in := range b.Instrs {
			s, ok := in.(*ssa.Store)
			if !ok {
				continue
			}
			al, ok := s.Addr.(*ssa.Alloc)
			if !ok || g.escaping[al] {
				continue
			}
			et := al.Type().Underlying().(*types.Pointer).Elem()
			if !isInt(et) {
				continue
			}
			d := 2
			if bo, ok := s.Val.(*ssa.BinOp); ok && (bo.Op == token.ADD || bo.Op == token.SUB) {
				if ld, ok := bo.X.(*ssa.UnOp); ok && ld.Op == token.MUL && ld.X == al {
					if c, ok := bo.Y.(*ssa.Const); ok && c.Value != nil && c.Value.Kind() == constant.Int {
						if v, ok := constant.Int64Val(c.Value); ok && v > 0 {
							if bo.Op == token.ADD {
								d = 1
							} else {
								d = -1
							}
						}
					}
				}
			}
			if prev, seen := dir[al]; seen && prev != d {
				d = 2
			}
			dir[al] = d
		}
	}
	var out []monoCell
	for al, d := range dir {
		if d == 1 || d == -1 {
			out = append(out, monoCell{al: al, up: d == 1})
		}
	}
	sort.Slice(out, func(i, j int) bool { return out[i].al.Pos() < out[j].al.Pos() })
	return out
}

type headInfo struct {
	ord    int
	invs   []Clause
	dec    Term
	hasDec bool
	ri     *ssa.Alloc
	state  *State // head state after havoc+assume (before head instructions)
	autoRecv ssa.Value // receiver of the Dispenser.Next*-style call that drives this loop (automatic variant), or nil
	monoCells []monoCell // int cells only ever incremented (decremented) in the loop: implicit invariant cell >= (<=) its value at loop entry
	autoEntry [][2]string // (dispenser ref, cursor value at loop entry): implicit invariant "the cursor never moves back"
}

func (g *Gen) run() {
	f := g.f
	w := g.w
	var order []*ssa.BasicBlock
	seen := map[*ssa.BasicBlock]bool{}
	var dfs func(b *ssa.BasicBlock)
	dfs = func(b *ssa.BasicBlock) {
		seen[b] = true
		for _, s := range b.Succs {
			if !seen[s] {
				dfs(s)
			}
		}
		order = append(order, b)
	}
	dfs(f.Blocks[0])
	for i, j := 0, len(order)-1; i < j; i, j = i+1, j-1 {
		order[i], order[j] = order[j], order[i]
	}
	isBack := func(from, to *ssa.BasicBlock) bool { return to.Dominates(from) }
	loopBody := map[*ssa.BasicBlock]map[*ssa.BasicBlock]bool{}
	for _, b := range f.Blocks {
		for _, s := range b.Succs {
			if isBack(b, s) {
				body := loopBody[s]
				if body == nil {
					body = map[*ssa.BasicBlock]bool{s: true}
					loopBody[s] = body
				}
				var stack []*ssa.BasicBlock
				if !body[b] {
					body[b] = true
					stack = append(stack, b)
				}
				for len(stack) > 0 {
					x := stack[len(stack)-1]
					stack = stack[:len(stack)-1]
					for _, p := range x.Preds {
						if !body[p] {
							body[p] = true
							stack = append(stack, p)
						}
					}
				}
			}
		}
	}
	var heads []*ssa.BasicBlock
	for h := range loopBody {
		heads = append(heads, h)
	}
	sort.Slice(heads, func(i, j int) bool { return heads[i].Index < heads[j].Index })
	infos := map[*ssa.BasicBlock]*headInfo{}
	g.loopRI = map[int]*ssa.Alloc{}
	for i, h := range heads {
		hi := &headInfo{ord: i + 1}
		if g.ctr != nil {
			hi.invs = g.ctr.LoopInv[i+1]
		}
		for _, in := range h.Instrs {
			if s, ok := in.(*ssa.Store); ok {
				if al, ok := s.Addr.(*ssa.Alloc); ok && al.Comment == "rangeindex" {
					hi.ri = al
				}
			}
		}
		if hi.ri != nil {
			// the ranged slice: `index < len(x)` is the loop condition, len(x) was taken before the loop
			if iff, ok := h.Instrs[len(h.Instrs)-1].(*ssa.If); ok {
				if bo, ok := iff.Cond.(*ssa.BinOp); ok && bo.Op == token.LSS {
					if call, ok := bo.Y.(*ssa.Call); ok {
						if b, ok := call.Call.Value.(*ssa.Builtin); ok && b.Name() == "len" && len(call.Call.Args) == 1 {
							if g.loopRR == nil {
								g.loopRR = map[int]ssa.Value{}
							}
							g.loopRR[hi.ord] = call.Call.Args[0]
						}
					}
				}
			}
		}
		if autoDispenserVariants {
			if iff, ok := h.Instrs[len(h.Instrs)-1].(*ssa.If); ok {
				cond := iff.Cond
				if u, ok := cond.(*ssa.UnOp); ok && u.Op == token.NOT {
					cond = u.X
				}
				if call, ok := cond.(*ssa.Call); ok && call.Block() == h {
					if fn, ok := call.Call.Value.(*ssa.Function); ok && dispenserDrivers[fn.String()] && len(call.Call.Args) > 0 {
						hi.autoRecv = call.Call.Args[0]
					}
				}
			}
		}
		infos[h] = hi
		if hi.ri != nil {
			g.loopRI[hi.ord] = hi.ri
		}
	}

	outState := map[*ssa.BasicBlock]*State{}
	edgeCond := map[[2]*ssa.BasicBlock]string{}
	// blocks behind a compile-time-constant branch (runtime.GOOS == "windows" folds to false here) are statically dead:
	// covers are not demanded there
	g.staticDead = map[*ssa.BasicBlock]bool{}
	for _, b := range order {
		if b.Index == 0 {
			continue
		}
		alive := false
		for _, p := range b.Preds {
			if isBack(p, b) {
				continue
			}
			if g.staticDead[p] {
				continue
			}
			if iff, ok := p.Instrs[len(p.Instrs)-1].(*ssa.If); ok {
				if c, ok := iff.Cond.(*ssa.Const); ok && c.Value != nil {
					taken := p.Succs[1]
					if constant.BoolVal(c.Value) {
						taken = p.Succs[0]
					}
					if taken != b {
						continue
					}
				}
			}
			alive = true
		}
		if !alive {
			g.staticDead[b] = true
		}
	}

	evalInvs := func(hi *headInfo, h *ssa.BasicBlock, st *State, role int) []Term {
		var out []Term
		for _, c := range hi.invs {
			env := &SpecEnv{g: g, st: st, old: g.entry, fn: f, argOverride: map[string]Term{}, bound: map[string]Term{}, evalBlock: h, role: role, loopOrd: hi.ord}
			if hi.ri != nil {
				riv := w.loadAddr(g.resolveAddr(hi.ri, st), st, tInt)
				t := T(fmt.Sprintf("(+ %s 1)", riv.S), "Int")
				env.ri = &t
			}
			t, err := env.evalBool(c.Expr)
			if err != nil {
				g.note("spec error in loop %d invariant [%s]: %v", hi.ord, c.Label, err)
				t = tTrue
			}
			out = append(out, t)
		}
		return out
	}
	// frameInvs: the implicit loop frame = the function's frame. For every field heap the function does not
	// declare as modified, objects allocated at function entry keep their value; the allocation set only grows.
	frameInvs := func(st *State) (labels []string, terms []string) {
		if !fieldMode || os.Getenv("GOVC_FRAME") == "" || g.ctr == nil || g.entry == nil {
			return
		}
		alloc0, ok := g.entry.heap["alloc"]
		if !ok {
			return
		}
		if al, ok := st.heap["alloc"]; ok && al.S != alloc0.S {
			labels = append(labels, "alloc_grows")
			terms = append(terms, fmt.Sprintf("(forall ((r Int)) (=> (select %s r) (select %s r)))", alloc0.S, al.S))
		}
		var keys []string
		for k := range st.heap {
			keys = append(keys, k)
		}
		sort.Strings(keys)
		for _, k := range keys {
			ts, i, isF := fldParts(k)
			if !isF {
				if strings.HasPrefix(k, "E:") {
					// element heaps: arrays allocated at function entry keep their contents unless the contract names the heap
					h0, had := g.entry.heap[k]
					h1 := st.heap[k]
					sel := selemKeyRegistry[strings.TrimPrefix(k, "E:")]
					if !had || h0.S == h1.S || sel == "" {
						continue
					}
					matched := false
					for _, mm := range g.ctr.Modifies {
						if heapKeyMatches(k, mm) {
							matched = true
						}
					}
					if matched {
						continue
					}
					labels = append(labels, "frame/"+k)
					terms = append(terms, fmt.Sprintf("(forall ((s Slice) (j Int)) (! (=> (select %s (sbase s)) (= (%s %s s j) (%s %s s j))) :pattern ((%s %s s j))))", alloc0.S, sel, h1.S, sel, h0.S, sel, h1.S))
				}
				if strings.HasPrefix(k, "MV:") || strings.HasPrefix(k, "MD:") || strings.HasPrefix(k, "ptr:") {
					// maps and pointer cells that existed at function entry keep their contents unless the contract names the heap
					h0, had := g.entry.heap[k]
					h1 := st.heap[k]
					if !had || h0.S == h1.S {
						continue
					}
					matched := false
					for _, mm := range g.ctr.Modifies {
						if heapKeyMatches(k, mm) {
							matched = true
						}
					}
					if matched {
						continue
					}
					labels = append(labels, "frame/"+k)
					terms = append(terms, fmt.Sprintf("(forall ((r Int)) (=> (select %s r) (= (select %s r) (select %s r))))", alloc0.S, h1.S, h0.S))
				}
				continue
			}
			h0, had := g.entry.heap[k]
			h1 := st.heap[k]
			if !had || h0.S == h1.S {
				continue
			}
			matched := false
			for _, mm := range g.ctr.Modifies {
				if heapKeyMatches(k, mm) {
					matched = true
				}
			}
			if matched {
				continue
			}
			name := lastSeg(ts)
			if stt := structRegistry[ts]; stt != nil && i < stt.NumFields() {
				name += "." + stt.Field(i).Name()
			}
			labels = append(labels, "frame/"+name)
			terms = append(terms, fmt.Sprintf("(forall ((r Int)) (=> (select %s r) (= (select %s r) (select %s r))))", alloc0.S, h1.S, h0.S))
		}
		return
	}
	evalDec := func(hi *headInfo, h *ssa.BasicBlock, st *State) (Term, bool) {
		if g.ctr == nil {
			return Term{}, false
		}
		d, ok := g.ctr.LoopDec[hi.ord]
		if !ok {
			return Term{}, false
		}
		env := &SpecEnv{g: g, st: st, old: g.entry, fn: f, argOverride: map[string]Term{}, bound: map[string]Term{}, evalBlock: h}
		v, err := env.eval(d)
		if err != nil {
			g.note("spec error in loop %d decreases: %v", hi.ord, err)
			return Term{}, false
		}
		return v.T, true
	}

	for _, b := range order {
		g.curBlock = b
		var st *State
		var preds []*ssa.BasicBlock
		for _, p := range b.Preds {
			if !isBack(p, b) && outState[p] != nil {
				preds = append(preds, p)
			}
		}
		if b.Index == 0 {
			st = &State{cells: map[*ssa.Alloc]Term{}, heap: map[string]Term{}, pc: "true"}
			g.prematerialise(st)
			alloc0 := g.w.heapArrSort(st, "alloc", "(Array Int Bool)")
			for _, prm := range f.Params {
				pv := g.val(prm, st)
				if pt, ok := prm.Type().Underlying().(*types.Pointer); ok {
					if _, isStruct := pt.Elem().Underlying().(*types.Struct); isStruct {
						g.w.assume(fmt.Sprintf("(or (= %s 0) (select %s %s))", pv.S, alloc0.S, pv.S))
					}
				} else if isSlice(prm.Type()) {
					g.w.assume(fmt.Sprintf("(or (= (sbase %s) 0) (select %s (sbase %s)))", pv.S, alloc0.S, pv.S))
				} else if _, isMap := prm.Type().Underlying().(*types.Map); isMap {
					g.w.assume(fmt.Sprintf("(or (= %s 0) (select %s %s))", pv.S, alloc0.S, pv.S))
				}
			}
			if assumeNonNilParams && g.ctr == nil {
				for _, prm := range f.Params {
					switch prm.Type().Underlying().(type) {
					case *types.Pointer, *types.Interface:
						// interface-typed parameters (ResponseWriter, Handler, ...) are never nil either when the framework calls in
						g.w.assume(fmt.Sprintf("(not (= %s 0))", g.val(prm, st).S))
					}
				}
				// requests handed to handlers by net/http are well-formed: URL and Header are set (listed assumption of the sweep)
				for _, prm := range f.Params {
					if types.TypeString(prm.Type(), nil) == "*net/http.Request" {
						for _, fld := range []string{"URL", "Header"} {
							if t, ok := g.fieldOfParam(prm, fld, st); ok {
								g.w.assume(fmt.Sprintf("(not (= %s 0))", t))
							}
						}
					}
				}
				// function literals: captured pointer variables are non-nil when the literal runs (listed assumption of the sweep)
				for _, fv := range f.FreeVars {
					if pp, ok := fv.Type().Underlying().(*types.Pointer); ok {
						if _, isPtr := pp.Elem().Underlying().(*types.Pointer); isPtr {
							a := g.resolveAddr(fv, st)
							v := g.w.loadAddr(a, st, pp.Elem())
							g.w.assume(fmt.Sprintf("(not (= %s 0))", v.S))
						}
					}
				}
			}
			for gname := range ghostInts {
				g.w.heapArr(st, "ghost:"+gname, "Int")
			}
			for gname := range ghostFns {
				g.w.heapArr(st, "ghost:"+gname, "Int")
			}
			// captured variables are distinct, live variables of the enclosing function
			for i, fv := range f.FreeVars {
				a := g.val(fv, st)
				g.w.assume(fmt.Sprintf("(not (= %s 0))", a.S))
				for _, fv2 := range f.FreeVars[:i] {
					g.w.assume(fmt.Sprintf("(not (= %s %s))", a.S, g.val(fv2, st).S))
				}
			}
			if g.ctr != nil && g.ctr.Recovers {
				sp := g.w.fresh("is_panicking", "Bool")
				g.symPanicking = &sp
			}
			g.emitAxioms(st)
			g.assumeUnitInvariants(st, f)
			held := g.w.heapArr(st, "ghost:held", "Int")
			g.w.assume(fmt.Sprintf("(forall ((m Int)) (! (>= (select %s m) 0) :pattern ((select %s m))))", held.S, held.S))
			g.entry = st.clone()
			// requires
			if g.ctr != nil {
				env := &SpecEnv{g: g, st: st, old: st, fn: f, argOverride: map[string]Term{}, bound: map[string]Term{}, inOld: true, role: roleAssume}
				for _, r := range g.ctr.Requires {
					t, err := env.evalBool(r.Expr)
					if err != nil {
						g.note("spec error in requires [%s]: %v", r.Label, err)
						continue
					}
					w.assume(t.S)
				}
				g.entry = st.clone()
			}
		} else if len(preds) == 0 {
			continue
		} else {
			st = g.mergePreds(b, preds, outState, edgeCond)
		}
		if body, ok := loopBody[b]; ok {
			hi := infos[b]
			// 1. invariants hold on entry
			for i, t := range evalInvs(hi, b, st, roleAssert) {
				g.addObNoAssume("inv_entry", fmt.Sprintf("loop%d_entry/%s", hi.ord, hi.invs[i].Label), b.Instrs[0].Pos(), st, t.S)
			}
			if ls, ts := frameInvs(st); len(ls) > 0 {
				for i := range ls {
					g.addObNoAssume("inv_entry", fmt.Sprintf("loop%d_entry/%s", hi.ord, ls[i]), b.Instrs[0].Pos(), st, ts[i])
				}
			}
			for _, mc := range g.monotoneCells(body) {
				if v, ok := st.cells[mc.al]; ok && isUnsigned(mc.al.Type().Underlying().(*types.Pointer).Elem()) == false {
					mc.entry = v.S
					hi.monoCells = append(hi.monoCells, mc)
				}
			}
			if autoDispenserVariants {
				for _, ref := range g.dispenserRefs(st) {
					if c, ok := g.dispenserCursor(ref, st); ok {
						hi.autoEntry = append(hi.autoEntry, [2]string{ref, c})
					}
				}
			}
			// 2. havoc
			storedCells := map[*ssa.Alloc]bool{}
			heapKeys := map[string]bool{}
			allHeap := false
			for lb := range body {
				for _, in := range lb.Instrs {
					switch v := in.(type) {
					case *ssa.Store:
						if al := rootAlloc(v.Addr); al != nil && !g.escaping[al] {
							storedCells[al] = true
						} else {
							k := staticHeapKey(v.Addr, g.escaping)
							if k == "*" {
								allHeap = true
							} else if k != "" {
								heapKeys[k] = true
							}
						}
					case *ssa.MapUpdate:
						mt := v.Map.Type().Underlying().(*types.Map)
						heapKeys["MV:"+types.TypeString(mt, nil)] = true
						heapKeys["MD:"+types.TypeString(mt, nil)] = true
					case *ssa.Alloc:
						// allocated inside loop: reset anyway
						if g.escaping[v] {
							heapKeys["alloc"] = true
						}
					case *ssa.MakeSlice, *ssa.MakeMap:
						heapKeys["alloc"] = true
					case *ssa.Call:
						n := calleeName(&v.Call)
						if callee, ok := v.Call.Value.(*ssa.Function); ok {
							if ctr := g.lookupContract(callee); ctr != nil {
								for k := range st.heap {
									for _, m := range ctr.Modifies {
										if heapKeyMatches(k, m) {
											heapKeys[k] = true
										}
									}
								}
								continue
							}
						}
						if v.Call.IsInvoke() {
							if ctr, ok := g.all["invoke:"+v.Call.Method.FullName()]; ok {
								for k := range st.heap {
									for _, m := range ctr.Modifies {
										if heapKeyMatches(k, m) {
											heapKeys[k] = true
										}
									}
								}
								continue
							}
						}
						if os.Getenv("GOVC_HAVOC_UNKNOWN") != "" && (strings.HasPrefix(n, "invoke:") || n == "dynamic" || strings.Contains(n, "github.com/tmpim/casket")) {
							if !(v.Call.IsInvoke() && v.Call.Method.Name() == "Read") {
								allHeap = true
							}
						}
					}
				}
			}
			if g.ctr != nil && g.ctr.AtCallDo != nil {
				// ghosts assigned at call sites that lie inside this loop
				for lb := range body {
					for _, in := range lb.Instrs {
						call, ok := in.(*ssa.Call)
						if !ok {
							continue
						}
						n := calleeName(&call.Call)
						ord := g.callOrdinal(&call.Call, n)
						keys := []string{n, fmt.Sprintf("%s#%d", n, ord)}
						if f, ok := call.Call.Value.(*ssa.Function); ok && f.Pkg != nil && f.Pkg == g.f.Pkg {
							sh := f.RelString(f.Pkg.Pkg)
							keys = append(keys, sh, fmt.Sprintf("%s#%d", sh, ord))
						}
						for _, k := range keys {
							for _, d := range g.ctr.AtCallDo[k] {
								heapKeys["ghost:"+d.Name] = true
							}
						}
					}
				}
			}
			for al := range storedCells {
				et := al.Type().Underlying().(*types.Pointer).Elem()
				st.cells[al] = w.freshTyped("lh_"+al.Comment, et)
			}
			for k, a := range st.heap {
				whole := false
				if ts, _, ok := fldParts(k); ok && heapKeys["obj:"+ts] {
					whole = true // a whole-struct store inside the loop touches every field heap of that type
				}
				if allHeap || heapKeys[k] || whole {
					st.heap[k] = w.fresh("Hl", a.Sort)
				}
			}
			// range loops: the hidden index starts at -1 and only increases
			if hi.ri != nil {
				riv := w.loadAddr(g.resolveAddr(hi.ri, st), st, tInt)
				w.assume(fmt.Sprintf("(=> %s (>= %s (- 1)))", st.pc, riv.S))
			}
			// 3. assume invariants
			for _, t := range evalInvs(hi, b, st, roleAssume) {
				w.assume(fmt.Sprintf("(=> %s %s)", st.pc, t.S))
			}
			if _, ts := frameInvs(st); len(ts) > 0 {
				for _, t := range ts {
					w.assume(fmt.Sprintf("(=> %s %s)", st.pc, t))
				}
			}
			for _, mc := range hi.monoCells {
				// sound without an obligation: every store to the cell inside the loop adds (subtracts) a positive constant,
				// and signed overflow is excluded by the arithmetic model (listed)
				op := ">="
				if !mc.up {
					op = "<="
				}
				w.assume(fmt.Sprintf("(=> %s (%s %s %s))", st.pc, op, st.cells[mc.al].S, mc.entry))
			}
			for _, ae := range hi.autoEntry {
				if c, ok := g.dispenserCursor(ae[0], st); ok {
					w.assume(fmt.Sprintf("(=> %s (>= %s %s))", st.pc, c, ae[1]))
				}
			}
			if g.ctr != nil {
				for _, u := range g.ctr.LoopUse[hi.ord] {
					g.useAxiom(u, st, b)
				}
			}
			if d, ok := evalDec(hi, b, st); ok {
				hi.dec, hi.hasDec = d, true
			}
			hi.state = st.clone()
		}
		// phi nodes (only from && / || in NaiveForm): value selected by the incoming edge
		for _, in := range b.Instrs {
			phi, ok := in.(*ssa.Phi)
			if !ok {
				break
			}
			m := w.freshTyped("phi", phi.Type())
			for i, p := range b.Preds {
				if outState[p] == nil || isBack(p, b) {
					continue
				}
				ec := edgeCond[[2]*ssa.BasicBlock{p, b}]
				if ec == "" {
					ec = "true"
				}
				w.assume(fmt.Sprintf("(=> (and %s %s) (= %s %s))", outState[p].pc, ec, m.S, g.val(phi.Edges[i], outState[p]).S))
			}
			g.vals[phi] = m
		}
		for _, in := range b.Instrs {
			if _, isPhi := in.(*ssa.Phi); isPhi {
				continue
			}
			g.instr(in, st)
		}
		outState[b] = st
		if iff, ok := b.Instrs[len(b.Instrs)-1].(*ssa.If); ok {
			c := g.val(iff.Cond, st)
			edgeCond[[2]*ssa.BasicBlock{b, b.Succs[0]}] = c.S
			edgeCond[[2]*ssa.BasicBlock{b, b.Succs[1]}] = fmt.Sprintf("(not %s)", c.S)
		}
		// back edges from b
		for _, s := range b.Succs {
			if !isBack(b, s) {
				continue
			}
			hi := infos[s]
			ec := edgeCond[[2]*ssa.BasicBlock{b, s}]
			if ec == "" {
				ec = "true"
			}
			bst := st.clone()
			pcb := w.fresh("pcb", "Bool")
			w.assume(fmt.Sprintf("(= %s (and %s %s))", pcb.S, st.pc, ec))
			bst.pc = pcb.S
			pos := b.Instrs[len(b.Instrs)-1].Pos()
			if !pos.IsValid() {
				pos = g.curPos
			}
			for i, t := range evalInvs(hi, s, bst, roleAssert) {
				g.addObNoAssume("inv_back", fmt.Sprintf("loop%d_preserved/%s", hi.ord, hi.invs[i].Label), pos, bst, t.S)
			}
			if ls, ts := frameInvs(bst); len(ls) > 0 {
				for i := range ls {
					g.addObNoAssume("inv_back", fmt.Sprintf("loop%d_preserved/%s", hi.ord, ls[i]), pos, bst, ts[i])
				}
			}
			for k, ae := range hi.autoEntry {
				if c, ok := g.dispenserCursor(ae[0], bst); ok {
					g.addObNoAssume("inv_back", fmt.Sprintf("loop%d_preserved/auto_cursor_monotone%d", hi.ord, k+1), pos, bst, fmt.Sprintf("(>= %s %s)", c, ae[1]))
				}
			}
			if hi.autoRecv != nil && !hi.hasDec {
				if recv, ok := g.vals[hi.autoRecv]; ok {
					v0, ok0 := g.dispenserMeasure(recv, hi.state)
					v1, ok1 := g.dispenserMeasure(recv, bst)
					if ok0 && ok1 {
						g.addObNoAssume("dec", fmt.Sprintf("loop%d_decreases/auto_dispenser", hi.ord), pos, bst, fmt.Sprintf("(and (>= %s 0) (< %s %s))", v0, v1, v0))
					}
				}
			}
			if hi.hasDec {
				if d, ok := evalDec(hi, s, bst); ok {
					g.addObNoAssume("dec", fmt.Sprintf("loop%d_decreases", hi.ord), pos, bst, fmt.Sprintf("(and (>= %s 0) (< %s %s))", hi.dec.S, d.S, hi.dec.S))
				}
			}
		}
	}
}

// prematerialise creates the initial heap arrays for every object/element type the function can touch,
// so that the entry state and all later states share them (lazy creation would give old(...) its own copy).
func (g *Gen) prematerialise(st *State) {
	seen := map[string]bool{}
	var visit func(t types.Type, depth int)
	visit = func(t types.Type, depth int) {
		if t == nil || depth > 4 {
			return
		}
		k := types.TypeString(t, nil)
		if seen[k] {
			return
		}
		seen[k] = true
		switch u := t.Underlying().(type) {
		case *types.Pointer:
			if _, ok := u.Elem().Underlying().(*types.Struct); ok {
				registerStruct(u.Elem())
				if fieldMode {
					stt := u.Elem().Underlying().(*types.Struct)
					for i := 0; i < stt.NumFields(); i++ {
						g.w.heapArr(st, fldKey("obj:"+types.TypeString(u.Elem(), nil), i), g.w.sortOf(stt.Field(i).Type()))
					}
				} else {
					g.w.heapArr(st, "obj:"+types.TypeString(u.Elem(), nil), g.w.sortOf(u.Elem()))
				}
			} else {
				// pointers to non-struct memory (captured variables, &local passed on): one heap per pointee type, created up front
				g.w.heapArr(st, "ptr:"+types.TypeString(u.Elem(), nil), g.w.sortOf(u.Elem()))
			}
			visit(u.Elem(), depth+1)
		case *types.Slice:
			g.w.elemArr(st, u.Elem())
			visit(u.Elem(), depth+1)
		case *types.Map:
			g.w.mapHeaps(st, u)
			visit(u.Key(), depth+1)
			visit(u.Elem(), depth+1)
		case *types.Struct:
			// a struct held by value inside another object lives in heaps of its own type (interior object): they exist
			// from the start, so that a callee's frame entry naming one of its fields (Dispenser.cursor of a Controller)
			// denotes a heap also in a function that never touches the field itself
			if depth > 0 && fieldMode && u.NumFields() > 0 {
				registerStruct(t)
				for i := 0; i < u.NumFields(); i++ {
					g.w.heapArr(st, fldKey("obj:"+types.TypeString(t, nil), i), g.w.sortOf(u.Field(i).Type()))
				}
			}
			for i := 0; i < u.NumFields(); i++ {
				visit(u.Field(i).Type(), depth+1)
			}
		case *types.Array:
			visit(u.Elem(), depth+1)
		}
	}
	for _, p := range g.f.Params {
		visit(p.Type(), 0)
	}
	for _, fv := range g.f.FreeVars {
		visit(fv.Type(), 0)
	}
	for _, b := range g.f.Blocks {
		for _, in := range b.Instrs {
			if v, ok := in.(ssa.Value); ok {
				visit(v.Type(), 0)
			}
			for _, op := range in.Operands(nil) {
				if *op != nil {
					if gl, ok := (*op).(*ssa.Global); ok {
						et := gl.Type().Underlying().(*types.Pointer).Elem()
						g.w.heapArr(st, "G:"+gl.String(), g.w.sortOf(et))
					}
					visit((*op).Type(), 0)
				}
			}
		}
	}
}

// emitAxioms instantiates every global axiom, closed over its binders and over all heap components.
func (g *Gen) emitAxioms(entry *State) {
	w := g.w
	for _, ax := range axioms {
		axst := &State{cells: map[*ssa.Alloc]Term{}, heap: map[string]Term{}, pc: "true"}
		var saved = w.binders
		// heap components become bound variables
		var keys []string
		for k := range entry.heap {
			keys = append(keys, k)
		}
		sort.Strings(keys)
		for i, k := range keys {
			name := fmt.Sprintf("axH%d_%d", len(w.events), i)
			axst.heap[k] = T(name, entry.heap[k].Sort)
			w.binders = append(w.binders, binderT{name, entry.heap[k].Sort})
		}
		env := &SpecEnv{g: g, st: axst, old: axst, fn: g.f, argOverride: map[string]Term{}, bound: map[string]Term{}, boundTypes: map[string]types.Type{}}
		ok := true
		for _, b := range ax.Binders {
			bt, err := env.resolveType(b.Typ)
			if err != nil {
				g.note("spec error in axiom binder %s: %v", b.Name, err)
				ok = false
				break
			}
			w.n++
			name := fmt.Sprintf("%s_ax%d", b.Name, w.n)
			env.bound[b.Name] = T(name, w.sortOf(bt))
			env.boundTypes[b.Name] = bt
			w.binders = append(w.binders, binderT{name, w.sortOf(bt)})
		}
		if ok {
			t, err := env.evalBool(ax.Expr)
			if err == nil {
				// an axiom is closed over every heap component: naming a package-level variable in it would state it for
				// every value of that variable (a contradiction in general). Pass the value as a binder instead.
				for _, k := range keys {
					if strings.HasPrefix(k, "G:") && strings.Contains(t.S, axst.heap[k].S+" ") {
						err = fmt.Errorf("axiom reads the package-level variable %s: axioms hold for every heap, so it would be stated for every value of it", strings.TrimPrefix(k, "G:"))
					}
				}
			}
			if err != nil {
				g.note("spec error in axiom: %v", err)
			} else if ax.Name == "" {
				w.assume(t.S) // closed over all active binders it mentions
			} else if false {
				// manual axiom: triggered only by use_<name>(binders)
				var bs, srts, names []string
				for _, b := range ax.Binders {
					bt := env.bound[b.Name]
					bs = append(bs, "("+bt.S+" "+bt.Sort+")")
					srts = append(srts, bt.Sort)
					names = append(names, bt.S)
				}
				trig := "use_" + ax.Name
				w.decls = append(w.decls, fmt.Sprintf("(declare-fun %s (%s) Bool)", trig, strings.Join(srts, " ")))
				// heap binders mentioned are closed too (outer), the trigger only fixes the declared binders
				var hb []string
				for _, b := range w.binders {
					isDecl := false
					for _, n := range names {
						if n == b.name {
							isDecl = true
						}
					}
					if !isDecl && strings.Contains(t.S, b.name) {
						hb = append(hb, "("+b.name+" "+b.sort+")")
					}
				}
				body := fmt.Sprintf("(forall (%s) (! %s :pattern ((%s %s))))", strings.Join(bs, " "), t.S, trig, strings.Join(names, " "))
				if len(hb) > 0 {
					body = fmt.Sprintf("(forall (%s) %s)", strings.Join(hb, " "), body)
				}
				w.asserts = append(w.asserts, body)
				w.events = append(w.events, event{assert: body})
			}
		}
		w.binders = saved
	}
}

// useAxiom instantiates a manual axiom in the CURRENT state: the body is evaluated with the binders
// bound to the given argument terms and assumed (no quantifier, no trigger needed).
func (g *Gen) useAxiom(u ast.Expr, st *State, blk *ssa.BasicBlock) {
	call, ok := u.(*ast.CallExpr)
	if !ok {
		g.note("spec error in use: not a call")
		return
	}
	name := call.Fun.(*ast.Ident).Name
	var ax *Axiom
	for _, a := range axioms {
		if a.Name == name {
			ax = a
		}
	}
	if ax == nil {
		g.note("spec error in use: no manual axiom %s", name)
		return
	}
	env := &SpecEnv{g: g, st: st, old: g.entry, fn: g.f, argOverride: map[string]Term{}, bound: map[string]Term{}, boundTypes: map[string]types.Type{}, evalBlock: blk}
	var vals []SV
	for _, a := range call.Args {
		v, err := env.eval(a)
		if err != nil {
			g.note("spec error in use %s: %v", name, err)
			return
		}
		vals = append(vals, v)
	}
	for i, b := range ax.Binders {
		env.bound[b.Name] = vals[i].T
		env.boundTypes[b.Name] = vals[i].Typ
	}
	t, err := env.evalBool(ax.Expr)
	if err != nil {
		g.note("spec error in use %s body: %v", name, err)
		return
	}
	g.w.assume(fmt.Sprintf("(=> %s %s)", st.pc, t.S))
}

// mergePreds builds the state at the entry of block b from its (non-back-edge) predecessors.
func (g *Gen) mergePreds(b *ssa.BasicBlock, preds []*ssa.BasicBlock, outState map[*ssa.BasicBlock]*State, edgeCond map[[2]*ssa.BasicBlock]string) *State {
	w := g.w
	var st *State
	var pcs []string
	for _, p := range preds {
		ec := edgeCond[[2]*ssa.BasicBlock{p, b}]
		if ec == "" {
			ec = "true"
		}
		pcs = append(pcs, fmt.Sprintf("(and %s %s)", outState[p].pc, ec))
	}
	pcName := w.fresh("pc", "Bool")
	w.assume(fmt.Sprintf("(= %s (or %s false))", pcName.S, strings.Join(pcs, " ")))
	st = &State{cells: map[*ssa.Alloc]Term{}, heap: map[string]Term{}, pc: pcName.S}
	// deferred calls: common prefix of the predecessors' lists
	st.defers = append([]*ssa.Defer{}, outState[preds[0]].defers...)
	for _, p := range preds[1:] {
		d := outState[p].defers
		n := 0
		for n < len(st.defers) && n < len(d) && st.defers[n] == d[n] {
			n++
		}
		if n != len(st.defers) || n != len(d) {
			g.note("defer stacks differ at a join: truncated to common prefix")
		}
		st.defers = st.defers[:n]
	}
	if len(preds) == 1 {
		c := outState[preds[0]].clone()
		st.cells, st.heap = c.cells, c.heap
	} else {
		cellKeys := map[*ssa.Alloc]int{}
		for _, p := range preds {
			for k := range outState[p].cells {
				cellKeys[k]++
			}
		}
		for k, n := range cellKeys {
			if n != len(preds) {
				continue
			}
			first := outState[preds[0]].cells[k]
			same := true
			for _, p := range preds[1:] {
				if outState[p].cells[k].S != first.S {
					same = false
				}
			}
			if same {
				st.cells[k] = first
				continue
			}
			m := w.fresh("m_"+k.Comment, first.Sort)
			for i, p := range preds {
				w.assume(fmt.Sprintf("(=> %s (= %s %s))", pcs[i], m.S, outState[p].cells[k].S))
			}
			st.cells[k] = m
		}
		heapKeys := map[string]int{}
		for _, p := range preds {
			for k := range outState[p].heap {
				heapKeys[k]++
			}
		}
		for k := range heapKeys {
			// a key missing in some pred means that pred never touched it: materialise the same initial array
			var first Term
			found := false
			for _, p := range preds {
				if a, ok := outState[p].heap[k]; ok {
					first = a
					found = true
					break
				}
			}
			if !found {
				continue
			}
			same := true
			for _, p := range preds {
				a, ok := outState[p].heap[k]
				if !ok || a.S != first.S {
					same = false
				}
			}
			if same {
				st.heap[k] = first
				continue
			}
			m := w.fresh("Hm", first.Sort)
			for i, p := range preds {
				a, ok := outState[p].heap[k]
				if !ok {
					continue // unconstrained on that path (sound: loses info)
				}
				w.assume(fmt.Sprintf("(=> %s (= %s %s))", pcs[i], m.S, a.S))
			}
			st.heap[k] = m
		}
	}
	return st
}

// autoDispenserVariants (unit attribute dispenser_variants=on): a loop whose condition is a call of one of the token-advancing
// Dispenser methods gets the variant len(d.tokens) - d.cursor automatically ("the loops a directive owns terminate").
var autoDispenserVariants = false

var dispenserDrivers = map[string]bool{
	"(*github.com/tmpim/casket/casketfile.Dispenser).Next":             true,
	"(*github.com/tmpim/casket/casketfile.Dispenser).NextArg":          true,
	"(*github.com/tmpim/casket/casketfile.Dispenser).NextLine":         true,
	"(*github.com/tmpim/casket/casketfile.Dispenser).NextBlock":        true,
	"(*github.com/tmpim/casket/casketfile.Dispenser).NextBlockNesting": true,
}

// dispenserRefs: the token dispensers this function works on, as terms available at any program point: parameters of
// type *Dispenser, and the Dispenser embedded by value in a parameter's struct (c *casket.Controller).
func (g *Gen) dispenserRefs(st *State) []string {
	var out []string
	// a Dispenser held by value whose address is taken (NewStaticUpstreams(c casketfile.Dispenser, ...)): its heap cell
	if len(g.f.Blocks) > 0 {
		for _, in := range g.f.Blocks[0].Instrs {
			if al, ok := in.(*ssa.Alloc); ok && g.escaping[al] {
				if pt, ok := al.Type().Underlying().(*types.Pointer); ok && types.TypeString(pt.Elem(), nil) == "github.com/tmpim/casket/casketfile.Dispenser" {
					if v, ok := g.vals[al]; ok {
						out = append(out, v.S)
					}
				}
			}
		}
	}
	for _, prm := range g.f.Params {
		pt, ok := prm.Type().Underlying().(*types.Pointer)
		if !ok {
			continue
		}
		if types.TypeString(pt.Elem(), nil) == "github.com/tmpim/casket/casketfile.Dispenser" {
			out = append(out, g.val(prm, st).S)
			continue
		}
		if stt, ok := pt.Elem().Underlying().(*types.Struct); ok {
			for i := 0; i < stt.NumFields(); i++ {
				if stt.Field(i).Embedded() && types.TypeString(stt.Field(i).Type(), nil) == "github.com/tmpim/casket/casketfile.Dispenser" {
					registerStruct(stt.Field(i).Type())
					out = append(out, g.w.subRef(pt.Elem(), i, g.val(prm, st)).S)
				}
			}
		}
	}
	return out
}

// fieldOfParam: the term for p.<field> in state st (p a pointer-to-struct parameter).
func (g *Gen) fieldOfParam(prm *ssa.Parameter, field string, st *State) (string, bool) {
	pt, ok := prm.Type().Underlying().(*types.Pointer)
	if !ok {
		return "", false
	}
	stt, ok := pt.Elem().Underlying().(*types.Struct)
	if !ok {
		return "", false
	}
	registerStruct(pt.Elem())
	for i := 0; i < stt.NumFields(); i++ {
		if stt.Field(i).Name() == field {
			arr := g.w.heapArr(st, fldKey("obj:"+types.TypeString(pt.Elem(), nil), i), g.w.sortOf(stt.Field(i).Type()))
			return fmt.Sprintf("(select %s %s)", arr.S, g.val(prm, st).S), true
		}
	}
	return "", false
}

func (g *Gen) dispenserCursor(ref string, st *State) (string, bool) {
	for k, h := range st.heap {
		ts, i, ok := fldParts(k)
		if !ok || ts != "github.com/tmpim/casket/casketfile.Dispenser" {
			continue
		}
		if stt := structRegistry[ts]; stt != nil && i < stt.NumFields() && stt.Field(i).Name() == "cursor" {
			return fmt.Sprintf("(select %s %s)", h.S, ref), true
		}
	}
	return "", false
}

// dispenserMeasure is len(d.tokens) - d.cursor for the Dispenser at ref in state st.
func (g *Gen) dispenserMeasure(ref Term, st *State) (string, bool) {
	var tok, cur string
	for k, h := range st.heap {
		ts, i, ok := fldParts(k)
		if !ok || ts != "github.com/tmpim/casket/casketfile.Dispenser" {
			continue
		}
		stt := structRegistry[ts]
		if stt == nil || i >= stt.NumFields() {
			continue
		}
		switch stt.Field(i).Name() {
		case "tokens":
			tok = h.S
		case "cursor":
			cur = h.S
		}
	}
	if tok == "" || cur == "" {
		return "", false
	}
	return fmt.Sprintf("(- (slen (select %s %s)) (select %s %s))", tok, ref.S, cur, ref.S), true
}

type result struct {
	ob     Oblig
	status string // unsat | sat | unknown | no-answer | dead-path | vacuous
	solver string
	smt    string // stand-alone query (kept for obligations that are not discharged)
}

// solver settings (set by the CLI)
var (
	secondChanceTimeout = 5   // seconds, per undischarged obligation
	knownTimeout        = 1   // seconds, for obligations listed as known findings
	vacuityTimeout      = 5   // seconds
	knownObligations    = map[string]bool{} // "<func>/<obligation>" of open known findings: short second chance
	crossCheck          = false // thorough: re-discharge every obligation stand-alone on a second solver
	solverSeed          = 0
)

type solverSpec struct {
	name string
	argv func(timeout int) []string
	pre  string
}

var fallbackSolvers = []solverSpec{
	{"z3-4.8.12", func(t int) []string { return []string{"z3", "-in", fmt.Sprintf("-T:%d", t), "smt.mbqi=false"} }, ""},
	{"z3-5.1.0", func(t int) []string { return []string{"z3-new", "-in", fmt.Sprintf("-T:%d", t), "smt.mbqi=false"} }, ""},
	{"cvc5-1.0", func(t int) []string {
		return []string{"cvc5", "--lang=smt2", fmt.Sprintf("--tlimit=%d", t*1000), "-"}
	}, "(set-logic ALL)\n"},
}

func firstLine(b []byte) string {
	for _, l := range strings.Split(string(b), "\n") {
		l = strings.TrimSpace(l)
		if l == "sat" || l == "unsat" || l == "unknown" || l == "timeout" {
			return l
		}
	}
	return "no-answer"
}

// race runs the stand-alone query on the fallback solvers concurrently; the first `unsat` wins.
func race(query string, timeout int, only string) (string, string) {
	type ans struct{ status, solver string }
	ch := make(chan ans, len(fallbackSolvers))
	n := 0
	var cmds []*exec.Cmd
	for _, sv := range fallbackSolvers {
		if only != "" && sv.name != only {
			continue
		}
		n++
		sv := sv
		c := exec.Command(sv.argv(timeout)[0], sv.argv(timeout)[1:]...)
		c.Stdin = strings.NewReader(sv.pre + query)
		cmds = append(cmds, c)
		go func() {
			out, _ := c.Output()
			ch <- ans{firstLine(out), sv.name}
		}()
	}
	best := ans{"no-answer", ""}
	for i := 0; i < n; i++ {
		a := <-ch
		if a.status == "unsat" {
			for _, c := range cmds {
				if c.Process != nil {
					c.Process.Kill()
				}
			}
			return "unsat", a.solver
		}
		if a.status == "sat" || (best.status == "no-answer" && a.status != "no-answer") {
			if best.status != "sat" {
				best = a
			}
		}
	}
	return best.status, best.solver
}

func solve(g *Gen, fname string) ([]result, bool) {
	if len(g.obs) == 0 {
		return nil, false
	}
	var sb bytes.Buffer
	sb.WriteString(prelude)
	for _, d := range g.w.structDefs {
		sb.WriteString(d + "\n")
	}
	for _, d := range g.w.decls {
		sb.WriteString(d + "\n")
	}
	var header bytes.Buffer
	header.Write(sb.Bytes())
	var assertsSoFar []string
	standalone := map[int]string{} // obligation index -> stand-alone query
	obIdx := 0
	for _, ev := range g.w.events {
		if ev.ob == nil {
			sb.WriteString("(assert " + ev.assert + ")\n")
			assertsSoFar = append(assertsSoFar, "(assert "+ev.assert+")")
			continue
		}
		fmt.Fprintf(&sb, "(push)\n(assert %s)\n(assert (not %s))\n(check-sat)\n(pop)\n", ev.ob.PC, ev.ob.Cond)
		standalone[obIdx] = header.String() + strings.Join(assertsSoFar, "\n") + fmt.Sprintf("\n(assert %s)\n(assert (not %s))\n(check-sat)\n", ev.ob.PC, ev.ob.Cond)
		obIdx++
	}
	if os.Getenv("GOVC_DUMP") != "" {
		os.WriteFile(os.Getenv("GOVC_DUMP"), sb.Bytes(), 0644)
	}
	// vacuity, for real: the complete set of assumptions must be satisfiable (stand-alone, not incremental); runs concurrently
	vac := make(chan string, 1)
	go func() {
		var ctx bytes.Buffer
		ctx.WriteString(header.String())
		ctx.WriteString(strings.Join(assertsSoFar, "\n"))
		ctx.WriteString("\n(check-sat)\n")
		// raced on every installed solver: an inconsistency that e-matching alone does not find (an axiom that
		// quantifies over a global it names, say) was proved by cvc5 and missed by z3 4.8.12 with MBQI off
		st, _ := race(ctx.String(), vacuityTimeout, "")
		vac <- st
	}()
	// array extensionality is switched off in the main session (it only weakens the solver, and made a function with a
	// 25-entry map literal take 33 s instead of 0.1 s); an obligation that needs it is decided by the second chance below
	cmd := exec.Command("z3", "-in", "-T:60", "smt.mbqi=false", "smt.auto_config=false", "smt.array.extensional=false", fmt.Sprintf("smt.random_seed=%d", solverSeed))
	cmd.Stdin = bytes.NewReader(sb.Bytes())
	out, _ := cmd.Output()
	sc := bufio.NewScanner(bytes.NewReader(out))
	sc.Buffer(make([]byte, 1<<20), 1<<20)
	var lines []string
	for sc.Scan() {
		line := strings.TrimSpace(sc.Text())
		if line == "sat" || line == "unsat" || line == "unknown" {
			lines = append(lines, line)
		} else if strings.Contains(line, "error") {
			g.note("solver error: %s", line)
		}
	}
	if v := <-vac; v == "unsat" {
		var res []result
		for _, ob := range g.obs {
			ob.Kind = "VACUOUS"
			res = append(res, result{ob: ob, status: "vacuous"})
		}
		return res, true
	}
	res := make([]result, 0, len(g.obs))
	type job struct {
		idx int
	}
	var wg sync.WaitGroup
	sem := make(chan struct{}, 6)
	var mu sync.Mutex
	for i, o := range g.obs {
		s := "no-answer"
		if i < len(lines) {
			s = lines[i]
		}
		if o.Kind == "cover" {
			// a cover must FAIL: "false" is provable only on a path whose assumptions are contradictory
			if g.ctr != nil && g.ctr.Unreachable[o.Name] {
				// the contract names this return as dead on purpose: it must indeed be dead, and is then accepted
				if s == "unsat" {
					res = append(res, result{ob: o, status: "reachable", solver: "declared-unreachable"})
				} else {
					o.Name = o.Name + "/declared_unreachable_but_reachable"
					res = append(res, result{ob: o, status: "dead-path", solver: "z3-4.8.12/incremental", smt: standalone[i]})
				}
				continue
			}
			if s == "unsat" {
				res = append(res, result{ob: o, status: "dead-path", solver: "z3-4.8.12/incremental", smt: standalone[i]})
			} else {
				res = append(res, result{ob: o, status: "reachable", solver: "z3-4.8.12/incremental"})
			}
			continue
		}
		r := result{ob: o, status: s, solver: "z3-4.8.12/incremental"}
		if os.Getenv("GOVC_DUMP_ALL") != "" {
			r.smt = standalone[i] // debugging aid: keep the stand-alone query of every obligation
		}
		res = append(res, r)
		ri := len(res) - 1
		need := s != "unsat" || crossCheck
		if !need {
			continue
		}
		wg.Add(1)
		go func(ri, i int, first string) {
			defer wg.Done()
			sem <- struct{}{}
			defer func() { <-sem }()
			if first != "unsat" {
				// second chance as designed: the obligation alone, non-incremental, raced on the solvers
				to := secondChanceTimeout
				if knownObligations[fname+"/"+g.obs[i].Name] {
					to = knownTimeout
				}
				st, sv := race(standalone[i], to, "")
				mu.Lock()
				if st == "unsat" {
					res[ri].status, res[ri].solver = "unsat", sv+"/stand-alone"
				} else {
					if st != "no-answer" {
						res[ri].status = st
					}
					res[ri].smt = standalone[i]
				}
				mu.Unlock()
				return
			}
			// cross-check (thorough): an independent solver must agree, stand-alone
			st, _ := race(standalone[i], secondChanceTimeout, "z3-5.1.0")
			mu.Lock()
			if st == "sat" {
				res[ri].status = "solver-disagreement"
				res[ri].smt = standalone[i]
			} else if st == "unsat" {
				res[ri].solver += "+z3-5.1.0"
			}
			mu.Unlock()
		}(ri, i, s)
	}
	wg.Wait()
	return res, false
}
