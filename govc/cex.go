package main

import (
	"encoding/json"
	"fmt"
	"go/types"
	"os"
	"os/exec"
	"path/filepath"
	"sort"
	"strconv"
	"strings"

	"golang.org/x/tools/go/ssa"
)

// Counterexample extraction and replay.
//
// For a failed obligation the stand-alone query is handed to z3 5.1 (Python API, MBQI on): a model gives values for
// the function's inputs. Inputs of "plain" types (integers, booleans, strings, slices of those, flat structs of those,
// pointers to such structs) are turned into Go literals, a test calling the REAL function with them is generated and
// injected with `go test -overlay`. The replay oracle is the run-time check itself: the call must panic. For failed
// postconditions/invariants there is no generic dynamic oracle, those are reported with `no-failing-input-found`
// unless a hand-written replay exists.

// Cex is a counterexample for a failed obligation, replayed on the real code where one could be extracted.
type Cex struct {
	Source     string   `json:"source,omitempty"` // how the model was found
	Inputs     []string `json:"inputs,omitempty"` // Go literals of the arguments (receiver first)
	Pkg        string   `json:"pkg,omitempty"`
	TestFile   string   `json:"test_file,omitempty"`
	Run        string   `json:"run,omitempty"`
	Reproduced bool     `json:"reproduced"`
	Output     string   `json:"output,omitempty"`
	Note       string   `json:"note,omitempty"`
}

// TypeDesc describes how to read a value of a Go type out of a model and how to print it as a Go literal.
type TypeDesc struct {
	Kind   string      `json:"kind"` // int | bool | string | slice | struct | ptr
	Go     string      `json:"go"`   // Go type as written in the test file
	Elem   *TypeDesc   `json:"elem,omitempty"`
	EHeap  string      `json:"eheap,omitempty"`  // slice: entry element heap term
	Selem  string      `json:"selem,omitempty"`  // slice: element read function
	Sort   string      `json:"sort,omitempty"`   // struct: SMT datatype sort (accessors <sort>_f<i>)
	Fields []FieldDesc `json:"fields,omitempty"` // struct / ptr-to-struct
}

type FieldDesc struct {
	Name string   `json:"name"`
	Type TypeDesc `json:"type"`
	Heap string   `json:"heap,omitempty"` // ptr-to-struct: entry heap array of this field
}

type CexPlan struct {
	Pkg     string      `json:"pkg"` // package directory relative to the repository
	PkgName string      `json:"pkg_name"`
	Call    string      `json:"call"`    // "%s" placeholders are the arguments in order
	Imports [][2]string `json:"imports"` // (path, package name)
	Dict    *CexDict    `json:"dict,omitempty"`
	Params  []ParamDesc `json:"params"`
	// executable postconditions (oracle.go): clause label -> Go source over the parameter names and r0, r1, …
	Oracles  map[string]*OracleSrc `json:"oracles,omitempty"`
	NResults int               `json:"n_results,omitempty"`
	IsMethod bool              `json:"is_method,omitempty"`
	FuncName string            `json:"func_name,omitempty"`
}

type ParamDesc struct {
	Name string   `json:"name"`
	Term string   `json:"term"`
	Type TypeDesc `json:"type"`
}

// buildCexPlan returns nil when some input is of a type we cannot construct from a model.
func buildCexPlan(g *Gen) *CexPlan {
	f := g.f
	if f.Pkg == nil || g.entry == nil || f.Parent() != nil {
		return nil
	}
	importNames := map[string]string{}
	qual := func(p *types.Package) string {
		if p == f.Pkg.Pkg {
			return ""
		}
		importNames[p.Path()] = p.Name()
		return p.Name()
	}
	var desc func(t types.Type, depth int) (TypeDesc, bool)
	desc = func(t types.Type, depth int) (TypeDesc, bool) {
		gs := types.TypeString(t, qual)
		switch u := t.Underlying().(type) {
		case *types.Basic:
			switch {
			case u.Info()&types.IsBoolean != 0:
				return TypeDesc{Kind: "bool", Go: gs}, true
			case u.Info()&types.IsString != 0:
				return TypeDesc{Kind: "string", Go: gs}, true
			case u.Info()&types.IsInteger != 0:
				return TypeDesc{Kind: "int", Go: gs}, true
			}
		case *types.Slice:
			if depth > 2 {
				return TypeDesc{}, false
			}
			ed, ok := desc(u.Elem(), depth+1)
			if !ok {
				return TypeDesc{}, false
			}
			h, okh := g.entry.heap["E:"+elemKey(u.Elem())]
			if !okh {
				return TypeDesc{}, false
			}
			return TypeDesc{Kind: "slice", Go: gs, Elem: &ed, EHeap: h.S, Selem: g.w.selemFn(u.Elem())}, true
		case *types.Struct:
			if depth > 2 {
				return TypeDesc{}, false
			}
			td := TypeDesc{Kind: "struct", Go: gs, Sort: g.w.sortOf(t)}
			for i := 0; i < u.NumFields(); i++ {
				fd, ok := desc(u.Field(i).Type(), depth+1)
				if !ok {
					fd = TypeDesc{Kind: "zero", Go: types.TypeString(u.Field(i).Type(), qual)}
				}
				td.Fields = append(td.Fields, FieldDesc{Name: u.Field(i).Name(), Type: fd})
			}
			return td, true
		case *types.Pointer:
			stt, ok := u.Elem().Underlying().(*types.Struct)
			if !ok || depth > 1 {
				return TypeDesc{}, false
			}
			td := TypeDesc{Kind: "ptr", Go: types.TypeString(u.Elem(), qual)}
			for i := 0; i < stt.NumFields(); i++ {
				ft := stt.Field(i).Type()
				var fd TypeDesc
				var ok bool
				switch ft.Underlying().(type) {
				case *types.Interface, *types.Signature, *types.Map, *types.Chan, *types.Pointer:
					// left at its zero value in the literal (nil): fine for a counterexample search that only needs the plain fields
					fd, ok = TypeDesc{Kind: "zero", Go: types.TypeString(ft, qual)}, true
				default:
					fd, ok = desc(ft, depth+1)
					if !ok {
						// a field of a shape the model reader cannot build (nested interface, array, …) stays at its zero value
						fd, ok = TypeDesc{Kind: "zero", Go: types.TypeString(ft, qual)}, true
					}
				}
				if !ok {
					return TypeDesc{}, false
				}
				h, okh := g.entry.heap[fldKey("obj:"+types.TypeString(u.Elem(), nil), i)]
				if !okh && fd.Kind != "zero" {
					return TypeDesc{}, false
				}
				td.Fields = append(td.Fields, FieldDesc{Name: stt.Field(i).Name(), Type: fd, Heap: h.S})
			}
			return td, true
		}
		return TypeDesc{}, false
	}
	plan := &CexPlan{PkgName: f.Pkg.Pkg.Name()}
	if rel, err := filepath.Rel(repoDir(), filepath.Dir(g.w.prog.Fset.Position(f.Pos()).Filename)); err == nil {
		plan.Pkg = rel
	} else {
		return nil
	}
	var args []string
	for _, prm := range f.Params {
		td, ok := desc(prm.Type(), 0)
		if !ok {
			return nil
		}
		term, ok := g.vals[prm]
		if !ok {
			return nil
		}
		plan.Params = append(plan.Params, ParamDesc{Name: prm.Name(), Term: term.S, Type: td})
		args = append(args, "%s")
	}
	if f.Signature.Recv() != nil {
		if len(args) == 0 {
			return nil
		}
		plan.Call = "(" + args[0] + ")." + f.Name() + "(" + strings.Join(args[1:], ", ") + ")"
	} else {
		plan.Call = f.Name() + "(" + strings.Join(args, ", ") + ")"
	}
	if f.Signature.Variadic() && len(args) > 0 {
		plan.Call = strings.TrimSuffix(plan.Call, ")") + "...)"
	}
	plan.Dict = collectDict(f, qual)
	plan.Oracles = oraclesFor(f, g.ctr)
	plan.NResults = f.Signature.Results().Len()
	plan.IsMethod = f.Signature.Recv() != nil
	plan.FuncName = f.Name()
	for p, n := range importNames {
		plan.Imports = append(plan.Imports, [2]string{p, n})
	}
	sort.Slice(plan.Imports, func(i, j int) bool { return plan.Imports[i][0] < plan.Imports[j][0] })
	return plan
}

// panicKinds: obligations whose violation is observable as a run-time panic of the function itself.
var panicKinds = map[string]bool{"index": true, "slice": true, "div": true, "nil": true, "nilmap": true, "makeslice": true, "panic": true}

var cexPlans = map[string]*CexPlan{} // "<unit>|<function>" -> plan (filled by the driver from the unit reports)

func searchCounterexample(prop string, f failure, tier string) *Cex {
	plan := cexPlans[f.Unit+"|"+f.Func]
	if plan == nil || f.Ob.SMTFile == "" {
		return nil
	}
	var oracle *OracleSrc
	if f.Ob.Kind == "post" {
		label := f.Ob.Name
		if i := strings.Index(label, "@ret"); i >= 0 {
			label = label[:i]
		}
		oracle = plan.Oracles[label]
		if oracle == nil {
			return nil
		}
	} else if !panicKinds[f.Ob.Kind] {
		return nil
	}
	pj, _ := json.Marshal(plan)
	planFile := f.Ob.SMTFile + ".plan.json"
	os.WriteFile(planFile, pj, 0644)
	to := "20"
	if tier == "thorough" {
		to = "60"
	}
	cmd := exec.Command("python3", filepath.Join(verifDir(), "tools", "cex.py"), f.Ob.SMTFile, planFile, to)
	out, err := cmd.Output()
	if err != nil {
		return &Cex{Source: "z3 5.1 (MBQI) on the stand-alone query", Note: "model search failed: " + lastLines(string(out), 2)}
	}
	var res struct {
		Status string   `json:"status"`
		Args   []string `json:"args"`
		Note   string   `json:"note"`
	}
	if json.Unmarshal(out, &res) != nil || res.Status != "sat" {
		return &Cex{Source: "z3 5.1 (MBQI) on the stand-alone query", Note: "no model: " + res.Status + " " + res.Note}
	}
	cex := &Cex{Source: "model of the negated obligation found by z3 5.1 (MBQI on)", Inputs: res.Args, Pkg: plan.Pkg, Run: "TestGovcCounterexample"}
	var ia []interface{}
	for _, a := range res.Args {
		ia = append(ia, a)
	}
	var sb strings.Builder
	fmt.Fprintf(&sb, "package %s\n\nimport (\n\t\"testing\"\n", plan.PkgName)
	joined := strings.Join(res.Args, " ")
	for _, im := range plan.Imports {
		if strings.Contains(joined, im[1]+".") {
			fmt.Fprintf(&sb, "\t%q\n", im[0])
		}
	}
	sb.WriteString(")\n\n")
	fmt.Fprintf(&sb, "// Counterexample for %s/%s (%s), generated from the solver's model.\nfunc TestGovcCounterexample(t *testing.T) {\n", f.Func, f.Ob.Name, f.Ob.Pos)
	sb.WriteString("\tdefer func() {\n\t\tif r := recover(); r != nil {\n\t\t\tt.Fatalf(\"DEFECT-REPRODUCED: %v\", r)\n\t\t}\n\t}()\n")
	if oracle == nil {
		fmt.Fprintf(&sb, "\t"+plan.Call+"\n}\n", ia...)
	} else {
		// the postcondition itself is the oracle: evaluate it, as Go, on what the real function returned
		sb.WriteString(oracleCallSrc(plan, res.Args, oracle, f.Ob.Name, "\t"))
		sb.WriteString("}\n")
	}
	testFile := strings.TrimSuffix(f.Ob.SMTFile, ".smt2") + "_cex_test.go"
	os.WriteFile(testFile, []byte(sb.String()), 0644)
	cex.TestFile = testFile
	_, o := runReplayTest(plan.Pkg, testFile, cex.Run)
	cex.Output = lastLines(o, 6)
	cex.Reproduced = strings.Contains(o, "DEFECT-REPRODUCED")
	if !cex.Reproduced {
		if s := dictionarySearch(plan, res.Args, f, oracle); s != nil && s.Reproduced {
			s.Inputs = res.Args
			s.Note = "the model's own inputs (field `inputs`) did not reproduce; the search found the input shown in `output`"
			return s
		}
	}
	return cex
}

// used by the unit runner to attach plans
func cexPlanFor(g *Gen) *CexPlan {
	defer func() { recover() }()
	return buildCexPlan(g)
}

var _ = ssa.NaiveForm

// ---------- dictionary-guided search (second attempt when the model does not replay) ----------
//
// A counterexample of the modular VC need not be one of the real function: callees and loops are abstracted by their
// contracts (or by nothing, in a sweep). When the model does not reproduce, the real function is run on a small product
// of candidate inputs built from the model values and from the constants and slice literals that occur in the function
// itself. This is only a search for a failing input of an obligation that has ALREADY failed; it can never make a check pass.

type CexDict struct {
	Ints   []int64              `json:"ints,omitempty"`
	Strs   []string             `json:"strs,omitempty"`
	Slices map[string][][]int64 `json:"slices,omitempty"` // element Go type (as printed in the test) -> literals
}

func collectDict(f *ssa.Function, qual types.Qualifier) *CexDict {
	d := &CexDict{Slices: map[string][][]int64{}}
	seenI, seenS := map[int64]bool{}, map[string]bool{}
	for _, b := range f.Blocks {
		for _, in := range b.Instrs {
			for _, op := range in.Operands(nil) {
				if c, ok := (*op).(*ssa.Const); ok && c.Value != nil {
					if isInt(c.Type()) {
						if v, ok := constInt64(c); ok && !seenI[v] && len(d.Ints) < 24 {
							seenI[v] = true
							d.Ints = append(d.Ints, v)
						}
					} else if isString(c.Type()) {
						if s := constString(c); !seenS[s] && len(d.Strs) < 12 && len(s) < 200 {
							seenS[s] = true
							d.Strs = append(d.Strs, s)
						}
					}
				}
			}
			al, ok := in.(*ssa.Alloc)
			if !ok {
				continue
			}
			at, ok := al.Type().Underlying().(*types.Pointer).Elem().Underlying().(*types.Array)
			if !ok || !isInt(at.Elem()) || at.Len() > 64 {
				continue
			}
			vals := make([]int64, at.Len())
			n := 0
			for _, r := range *al.Referrers() {
				ia, ok := r.(*ssa.IndexAddr)
				if !ok {
					continue
				}
				ic, ok := ia.Index.(*ssa.Const)
				if !ok {
					continue
				}
				idx, ok := constInt64(ic)
				if !ok || idx < 0 || idx >= at.Len() {
					continue
				}
				for _, r2 := range *ia.Referrers() {
					if s, ok := r2.(*ssa.Store); ok && s.Addr == ia {
						if vc, ok := s.Val.(*ssa.Const); ok {
							if v, ok := constInt64(vc); ok {
								vals[idx] = v
								n++
							}
						}
					}
				}
			}
			if n > 0 {
				k := types.TypeString(at.Elem(), qual)
				d.Slices[k] = append(d.Slices[k], vals)
			}
		}
	}
	return d
}

func constInt64(c *ssa.Const) (int64, bool) {
	if c.Value == nil {
		return 0, false
	}
	defer func() { recover() }()
	return c.Int64(), true
}

func constString(c *ssa.Const) string {
	defer func() { recover() }()
	s := c.Value.ExactString()
	if u, err := strconvUnquote(s); err == nil {
		return u
	}
	return s
}

type leaf struct {
	typ   string
	cands []string
}

func intLits(vs []int64) string {
	var ss []string
	for _, v := range vs {
		ss = append(ss, fmt.Sprint(v))
	}
	return strings.Join(ss, ", ")
}

// leavesOf flattens a value of type td into leaf variables; returns the Go expression over those variables.
func leavesOf(td TypeDesc, model string, d *CexDict, leaves *[]leaf) string {
	add := func(typ string, cands []string) string {
		seen := map[string]bool{}
		var uniq []string
		for _, c := range cands {
			if c != "" && !seen[c] {
				seen[c] = true
				uniq = append(uniq, c)
			}
		}
		*leaves = append(*leaves, leaf{typ, uniq})
		return fmt.Sprintf("v%d", len(*leaves)-1)
	}
	switch td.Kind {
	case "bool":
		return add(td.Go, []string{model, "true", "false"})
	case "int":
		c := []string{model, "0", "1"}
		for _, v := range d.Ints {
			if v >= 0 && len(c) < 10 {
				c = append(c, fmt.Sprint(v))
				if v > 0 {
					c = append(c, fmt.Sprint(v-1))
				}
			}
		}
		return add(td.Go, c)
	case "string":
		c := []string{model, td.Go + `("")`}
		for _, s := range d.Strs {
			if len(c) < 8 {
				c = append(c, fmt.Sprintf("%s(%q)", td.Go, s))
			}
		}
		return add(td.Go, c)
	case "slice":
		c := []string{model, td.Go + "{}"}
		if td.Elem != nil && td.Elem.Kind == "int" {
			lits := d.Slices[td.Elem.Go]
			if len(lits) > 4 {
				lits = lits[:4]
			}
			for _, a := range lits {
				c = append(c, fmt.Sprintf("%s{%s}", td.Go, intLits(a)))
			}
			for i, a := range lits {
				for j, b := range lits {
					if i == j || len(c) > 14 {
						continue
					}
					c = append(c, fmt.Sprintf("%s{%s}", td.Go, intLits(append(append([]int64{}, a...), b[:1]...))))
					c = append(c, fmt.Sprintf("%s{%s}", td.Go, intLits(append(append([]int64{}, a...), b...))))
				}
			}
		}
		return add(td.Go, c)
	case "struct", "ptr":
		// per-field models are not available separately here: re-derive them from the struct literal is not possible, so the
		// struct's fields vary over their dictionaries and the whole model literal is one extra candidate of the parent
		var fs []string
		for _, f := range td.Fields {
			if f.Type.Kind == "zero" {
				continue
			}
			fs = append(fs, f.Name+": "+leavesOf(f.Type, "", d, leaves))
		}
		if td.Kind == "ptr" {
			return "&" + td.Go + "{" + strings.Join(fs, ", ") + "}"
		}
		return td.Go + "{" + strings.Join(fs, ", ") + "}"
	}
	return model
}

// oracleCallSrc: statements that bind the parameters to the given argument expressions, call the real function and fail
// the test when the (executable) postcondition is false.
func oracleCallSrc(plan *CexPlan, args []string, oracle *OracleSrc, obName, ind string) string {
	var sb strings.Builder
	var names []string
	for i, p := range plan.Params {
		n := p.Name
		if n == "" || n == "_" {
			n = fmt.Sprintf("govcArg%d", i)
		}
		names = append(names, n)
		fmt.Fprintf(&sb, "%s%s := %s\n%s_ = %s\n", ind, n, args[i], ind, n)
	}
	for _, st := range oracle.Pre {
		fmt.Fprintf(&sb, "%s%s\n", ind, st)
	}
	var rs []string
	for i := 0; i < plan.NResults; i++ {
		rs = append(rs, fmt.Sprintf("r%d", i))
	}
	call := plan.FuncName + "(" + strings.Join(names, ", ") + ")"
	if plan.IsMethod && len(names) > 0 {
		call = names[0] + "." + plan.FuncName + "(" + strings.Join(names[1:], ", ") + ")"
	}
	if len(rs) > 0 {
		fmt.Fprintf(&sb, "%s%s := %s\n", ind, strings.Join(rs, ", "), call)
		for _, r := range rs {
			fmt.Fprintf(&sb, "%s_ = %s\n", ind, r)
		}
	} else {
		fmt.Fprintf(&sb, "%s%s\n", ind, call)
	}
	fmt.Fprintf(&sb, "%sif !(%s) {\n%s\tt.Fatalf(\"DEFECT-REPRODUCED: postcondition %s is false: inputs %%#v results %%#v\", []interface{}{%s}, []interface{}{%s})\n%s}\n", ind, oracle.Expr, ind, obName, strings.Join(names, ", "), strings.Join(rs, ", "), ind)
	return sb.String()
}

func dictionarySearch(plan *CexPlan, modelArgs []string, f failure, oracle *OracleSrc) *Cex {
	if plan.Dict == nil {
		return nil
	}
	var leaves []leaf
	var exprs []interface{}
	for i, p := range plan.Params {
		m := ""
		if i < len(modelArgs) {
			m = modelArgs[i]
		}
		exprs = append(exprs, leavesOf(p.Type, m, plan.Dict, &leaves))
	}
	// keep the product small
	total := func() int {
		n := 1
		for _, l := range leaves {
			if len(l.cands) > 0 {
				n *= len(l.cands)
			}
			if n > 1<<30 {
				return n
			}
		}
		return n
	}
	for total() > 300000 {
		big := 0
		for i := range leaves {
			if len(leaves[i].cands) > len(leaves[big].cands) {
				big = i
			}
		}
		if len(leaves[big].cands) <= 1 {
			break
		}
		leaves[big].cands = leaves[big].cands[:len(leaves[big].cands)-1]
	}
	var sb strings.Builder
	fmt.Fprintf(&sb, "package %s\n\nimport (\n\t\"fmt\"\n\t\"testing\"\n", plan.PkgName)
	var body strings.Builder
	for i, l := range leaves {
		if len(l.cands) == 0 {
			l.cands = []string{"*new(" + l.typ + ")"}
		}
		fmt.Fprintf(&body, "\tc%d := []%s{%s}\n", i, l.typ, strings.Join(l.cands, ", "))
	}
	for i := range leaves {
		fmt.Fprintf(&body, "\tfor _, v%d := range c%d {\n", i, i)
	}
	call := fmt.Sprintf(plan.Call, exprs...)
	if oracle != nil {
		var as []string
		for _, e := range exprs {
			as = append(as, e.(string))
		}
		fmt.Fprintf(&body, "\t\tfunc() {\n\t\t\tdefer func() { recover() }()\n%s\t\t}()\n\t\tif t.Failed() {\n\t\t\treturn\n\t\t}\n", strings.ReplaceAll(oracleCallSrc(plan, as, oracle, f.Ob.Name, "\t\t\t"), "t.Fatalf(", "t.Errorf("))
	} else {
		fmt.Fprintf(&body, "\t\tif p := govcTry(func() { %s }); p != nil {\n\t\t\tt.Fatalf(\"DEFECT-REPRODUCED: %%v on input %%s\", p, fmt.Sprintf(\"%%#v\", []interface{}{%s}))\n\t\t}\n", call, joinVars(len(leaves)))
	}
	for range leaves {
		body.WriteString("\t}\n")
	}
	for _, im := range plan.Imports {
		if strings.Contains(body.String(), im[1]+".") {
			fmt.Fprintf(&sb, "\t%q\n", im[0])
		}
	}
	sb.WriteString(")\n\nfunc govcTry(f func()) (p interface{}) {\n\tdefer func() { p = recover() }()\n\tf()\n\treturn nil\n}\n\nvar _ = fmt.Sprint\nvar _ = govcTry\n\n")
	fmt.Fprintf(&sb, "// Search for a failing input of %s/%s over the model values and the function's own constants.\nfunc TestGovcCounterexampleSearch(t *testing.T) {\n%s}\n", f.Func, f.Ob.Name, body.String())
	testFile := strings.TrimSuffix(f.Ob.SMTFile, ".smt2") + "_search_test.go"
	os.WriteFile(testFile, []byte(sb.String()), 0644)
	_, o := runReplayTest(plan.Pkg, testFile, "TestGovcCounterexampleSearch")
	cex := &Cex{Source: "search over the model values and the constants/slice literals of the function (the solver's model did not replay)", Pkg: plan.Pkg, TestFile: testFile, Run: "TestGovcCounterexampleSearch"}
	cex.Output = lastLines(o, 4)
	if len(cex.Output) > 1500 {
		cex.Output = cex.Output[:1500]
	}
	cex.Reproduced = strings.Contains(o, "DEFECT-REPRODUCED")
	return cex
}

func joinVars(n int) string {
	var vs []string
	for i := 0; i < n; i++ {
		vs = append(vs, fmt.Sprintf("v%d", i))
	}
	return strings.Join(vs, ", ")
}

func strconvUnquote(s string) (string, error) { return strconv.Unquote(s) }
