package main

// Cex is a counterexample for a failed obligation, replayed on the real code where one could be extracted.
type Cex struct {
	Model      map[string]string `json:"model,omitempty"`
	Source     string            `json:"source,omitempty"` // how the model was found
	Pkg        string            `json:"pkg,omitempty"`
	TestFile   string            `json:"test_file,omitempty"`
	Run        string            `json:"run,omitempty"`
	Reproduced bool              `json:"reproduced"`
	Output     string            `json:"output,omitempty"`
}

func searchCounterexample(prop string, f failure, tier string) *Cex { return nil }
