package main

import (
	"fmt"
	"go/constant"
	"go/token"
	"go/types"
	"os"
	"regexp"
	"sort"
	"strconv"
	"strings"

	"golang.org/x/tools/go/ssa"
)

// ---------- terms & sorts ----------

type Term struct {
	S    string
	Sort string
}

func T(s, sort string) Term { return Term{s, sort} }

var tTrue, tFalse = T("true", "Bool"), T("false", "Bool")

func lit(n int64) string {
	if n < 0 {
		return fmt.Sprintf("(- %d)", -n)
	}
	return fmt.Sprint(n)
}

var sanitize = regexp.MustCompile(`[^A-Za-z0-9_]`)

// World holds declarations shared by all obligations of one function.
type World struct {
	decls       []string
	asserts     []string
	n           int
	structSorts map[string]string // types string -> sort name
	structDefs  []string
	strLits     map[string]string
	pureDecl    map[string]bool
	prog        *ssa.Program
	binders     []binderT
	extDone     map[string]bool
	curPC       string  // path condition of the instruction being executed ("" outside execution)
	events      []event // asserts and checks in program order: a check sees only earlier asserts
}

type binderT struct{ name, sort string }

type event struct {
	assert string
	ob     *Oblig
}

func newWorld(prog *ssa.Program) *World {
	return &World{structSorts: map[string]string{}, strLits: map[string]string{}, pureDecl: map[string]bool{}, extDone: map[string]bool{}, prog: prog}
}

func (w *World) fresh(prefix, sort string) Term {
	w.n++
	name := fmt.Sprintf("%s_%d", sanitize.ReplaceAllString(prefix, "_"), w.n)
	w.decls = append(w.decls, fmt.Sprintf("(declare-const %s %s)", name, sort))
	return T(name, sort)
}

// assume adds a global fact; if it mentions active bound variables it is universally closed over them.
func (w *World) assume(s string) {
	// Everything assumed while an instruction is executed holds on that instruction's path only: a fact about a
	// derived value (the length of data[k:], the result of copy) would otherwise constrain the other paths.
	// Definitions of path-condition symbols are the exception.
	if w.curPC != "" && w.curPC != "true" && !strings.HasPrefix(s, "(= pc") && !strings.HasPrefix(s, "(=> "+w.curPC+" ") {
		s = "(=> " + w.curPC + " " + s + ")"
	}
	var vs []string
	for _, b := range w.binders {
		if strings.Contains(s, b.name) {
			vs = append(vs, "("+b.name+" "+b.sort+")")
		}
	}
	if len(vs) > 0 {
		s = "(forall (" + strings.Join(vs, " ") + ") " + s + ")"
	}
	w.asserts = append(w.asserts, s)
	w.events = append(w.events, event{assert: s})
}

// assumeGlobal adds a fact that holds on every path and mentions no bound variable (literal facts, definitional
// axioms of generator-introduced functions): it is neither guarded by the current path condition nor closed over binders.
func (w *World) assumeGlobal(s string) {
	w.asserts = append(w.asserts, s)
	w.events = append(w.events, event{assert: s})
}

func basicKind(t types.Type) (types.BasicKind, bool) {
	b, ok := t.Underlying().(*types.Basic)
	if !ok {
		return 0, false
	}
	return b.Kind(), true
}
func isBool(t types.Type) bool {
	b, ok := t.Underlying().(*types.Basic)
	return ok && b.Info()&types.IsBoolean != 0
}
func isInt(t types.Type) bool {
	b, ok := t.Underlying().(*types.Basic)
	return ok && b.Info()&types.IsInteger != 0
}
func isUnsigned(t types.Type) bool {
	b, ok := t.Underlying().(*types.Basic)
	return ok && b.Info()&types.IsUnsigned != 0
}
func isString(t types.Type) bool {
	b, ok := t.Underlying().(*types.Basic)
	return ok && b.Info()&types.IsString != 0
}
func isSlice(t types.Type) bool { _, ok := t.Underlying().(*types.Slice); return ok }

func intBits(t types.Type) int {
	k, ok := basicKind(t)
	if !ok {
		return 0
	}
	switch k {
	case types.Int8, types.Uint8:
		return 8
	case types.Int16, types.Uint16:
		return 16
	case types.Int32, types.Uint32:
		return 32
	case types.Int, types.Int64, types.Uint, types.Uint64, types.Uintptr, types.UntypedInt:
		return 64
	}
	return 0
}

func pow2(n int) string {
	switch n {
	case 7:
		return "128"
	case 8:
		return "256"
	case 15:
		return "32768"
	case 16:
		return "65536"
	case 31:
		return "2147483648"
	case 32:
		return "4294967296"
	case 63:
		return "9223372036854775808"
	case 64:
		return "18446744073709551616"
	}
	panic("pow2")
}

func intRange(t types.Type) (lo, hi string, ok bool) {
	bits := intBits(t)
	if bits == 0 || !isInt(t) {
		return
	}
	if isUnsigned(t) {
		return "0", "(- " + pow2(bits) + " 1)", true
	}
	return "(- " + pow2(bits-1) + ")", "(- " + pow2(bits-1) + " 1)", true
}

func (w *World) sortOf(t types.Type) string {
	switch u := t.Underlying().(type) {
	case *types.Basic:
		switch {
		case u.Info()&types.IsBoolean != 0:
			return "Bool"
		case u.Info()&types.IsString != 0:
			return "Str"
		}
		return "Int"
	case *types.Slice:
		return "Slice"
	case *types.Struct:
		key := types.TypeString(t, nil)
		if _, isNamed := t.(*types.Named); !isNamed {
			key = types.TypeString(u, nil)
		}
		if s, ok := w.structSorts[key]; ok {
			return s
		}
		name := fmt.Sprintf("S%d_%s", len(w.structSorts), sanitize.ReplaceAllString(lastSeg(key), "_"))
		if len(name) > 40 {
			name = name[:40]
		}
		w.structSorts[key] = name
		var fs []string
		for i := 0; i < u.NumFields(); i++ {
			fs = append(fs, fmt.Sprintf("(%s_f%d %s)", name, i, w.sortOf(u.Field(i).Type())))
		}
		if len(fs) == 0 {
			fs = append(fs, fmt.Sprintf("(%s_unit Int)", name))
		}
		w.structDefs = append(w.structDefs, fmt.Sprintf("(declare-datatypes ((%s 0)) (((mk_%s %s))))", name, name, strings.Join(fs, " ")))
		return name
	case *types.Array:
		return "(Array Int " + w.sortOf(u.Elem()) + ")"
	}
	return "Int" // pointers, maps, chans, funcs, interfaces: refs
}

func lastSeg(s string) string {
	if i := strings.LastIndex(s, "/"); i >= 0 {
		return s[i+1:]
	}
	return s
}

// typeFacts returns constraints every value of type t satisfies.
func (w *World) typeFacts(v Term, t types.Type) []string {
	for _, bd := range w.binders {
		if strings.HasPrefix(bd.sort, "(Array") && strings.Contains(v.S, bd.name) {
			return nil // value read from a universally quantified heap (axiom body): no typing fact, it would claim something about every heap
		}
	}
	var out []string
	switch {
	case isInt(t):
		if lo, hi, ok := intRange(t); ok {
			out = append(out, fmt.Sprintf("(and (<= %s %s) (<= %s %s))", lo, v.S, v.S, hi))
		}
	case isSlice(t):
		out = append(out, fmt.Sprintf("(and (<= 0 (soff %s)) (<= 0 (slen %s)) (<= (slen %s) (scap %s)) (<= (scap %s) 9223372036854775807))", v.S, v.S, v.S, v.S, v.S))
	}
	return out
}

func (w *World) freshTyped(prefix string, t types.Type) Term {
	v := w.fresh(prefix, w.sortOf(t))
	for _, f := range w.typeFacts(v, t) {
		w.assume(f)
	}
	return v
}

func (w *World) zero(t types.Type) Term {
	srt := w.sortOf(t)
	switch srt {
	case "Bool":
		return tFalse
	case "Int":
		return T("0", "Int")
	case "Str":
		return w.strLit("")
	case "Slice":
		return T("(mk_slice 0 0 0 0)", "Slice")
	}
	if st, ok := t.Underlying().(*types.Struct); ok {
		var fs []string
		for i := 0; i < st.NumFields(); i++ {
			fs = append(fs, w.zero(st.Field(i).Type()).S)
		}
		if len(fs) == 0 {
			fs = []string{"0"}
		}
		return T(fmt.Sprintf("(mk_%s %s)", srt, strings.Join(fs, " ")), srt)
	}
	return w.fresh("zero", srt) // arrays: unconstrained (prototype)
}

func (w *World) strLit(s string) Term {
	if n, ok := w.strLits[s]; ok {
		return T(n, "Str")
	}
	name := fmt.Sprintf("strlit_%d", len(w.strLits))
	w.strLits[s] = name
	w.decls = append(w.decls, fmt.Sprintf("(declare-const %s Str)", name))
	w.assumeGlobal(fmt.Sprintf("(= (strlen %s) %d)", name, len(s)))
	// distinctness from other literals
	for o, on := range w.strLits {
		if o != s {
			w.assumeGlobal(fmt.Sprintf("(not (= %s %s))", name, on))
		}
	}
	if s == "" {
		w.assumeGlobal(fmt.Sprintf("(forall ((x Str)) (! (=> (= (strlen x) 0) (= x %s)) :pattern ((strlen x))))", name))
	}
	if len(s) <= 16 {
		for i := 0; i < len(s); i++ {
			w.assumeGlobal(fmt.Sprintf("(= (sat %s %d) %d)", name, i, s[i]))
		}
	}
	return T(name, "Str")
}

// chr is string(b) for an integer b (single byte for b < 128).
func (w *World) chr(x Term) Term {
	if !w.pureDecl["chr"] {
		w.pureDecl["chr"] = true
		w.decls = append(w.decls, "(declare-fun chr (Int) Str)")
		w.assumeGlobal("(forall ((b Int)) (! (=> (and (<= 0 b) (< b 128)) (and (= (strlen (chr b)) 1) (= (sat (chr b) 0) b))) :pattern ((chr b))))")
	}
	return T(fmt.Sprintf("(chr %s)", x.S), "Str")
}

// strEqLit expands x == "lit" to length-and-bytes (quantifier free).
func (w *World) strEqLit(x Term, lit string) string {
	if len(lit) > 16 {
		return fmt.Sprintf("(= %s %s)", x.S, w.strLit(lit).S)
	}
	parts := []string{fmt.Sprintf("(= (strlen %s) %d)", x.S, len(lit))}
	for i := 0; i < len(lit); i++ {
		parts = append(parts, fmt.Sprintf("(= (sat %s %d) %d)", x.S, i, lit[i]))
	}
	content := "(and " + strings.Join(parts, " ") + ")"
	if len(w.binders) == 0 {
		// extensionality instantiated for this (term, literal) pair: equal bytes <=> equal strings
		l := w.strLit(lit)
		key := x.S + "==" + l.S
		if !w.extDone[key] {
			w.extDone[key] = true
			w.assume(fmt.Sprintf("(= (= %s %s) %s)", x.S, l.S, content))
		}
	}
	return content
}

// ---------- state ----------

type State struct {
	cells  map[*ssa.Alloc]Term
	heap   map[string]Term // key -> array term
	pc     string
	defers []*ssa.Defer // statically ordered deferred calls registered on this path
}

func (s *State) clone() *State {
	n := &State{cells: map[*ssa.Alloc]Term{}, heap: map[string]Term{}, pc: s.pc, defers: append([]*ssa.Defer{}, s.defers...)}
	for k, v := range s.cells {
		n.cells[k] = v
	}
	for k, v := range s.heap {
		n.heap[k] = v
	}
	return n
}

// Addr is a symbolic address.
type Addr struct {
	kind  string // cell, heap, elem, unknown
	alloc *ssa.Alloc
	key   string     // heap key
	ref   Term       // heap ref or elem base
	idx   Term       // elem index (relative to the slice)
	slice Term       // elem: the slice value
	path  []int      // nested by-value struct field path
	typ   types.Type // type of the root object (cell/heap field/elem), before path
}

// fieldMode: heap objects are stored as one array per field ("fld:<type>#<i>") instead of one array of whole structs.
var fieldMode = os.Getenv("GOVC_FIELDS") != "0"

func fldKey(objKey string, i int) string {
	return "fld:" + strings.TrimPrefix(objKey, "obj:") + "#" + strconv.Itoa(i)
}

// fldParts splits a field-heap key into struct type string and field index.
func fldParts(k string) (string, int, bool) {
	if !strings.HasPrefix(k, "fld:") {
		return "", 0, false
	}
	r := strings.TrimPrefix(k, "fld:")
	j := strings.LastIndex(r, "#")
	i, _ := strconv.Atoi(r[j+1:])
	return r[:j], i, true
}

// perField reports whether the address denotes (part of) a heap struct that is split into field heaps.
func perField(a Addr) (*types.Struct, bool) {
	if !fieldMode || a.kind != "heap" || !strings.HasPrefix(a.key, "obj:") {
		return nil, false
	}
	stt, ok := a.typ.Underlying().(*types.Struct)
	return stt, ok
}

func (w *World) loadWhole(a Addr, st *State, stt *types.Struct) Term {
	srt := w.sortOf(a.typ)
	var fs []string
	for i := 0; i < stt.NumFields(); i++ {
		arr := w.heapArr(st, fldKey(a.key, i), w.sortOf(stt.Field(i).Type()))
		fs = append(fs, fmt.Sprintf("(select %s %s)", arr.S, a.ref.S))
	}
	whole := fmt.Sprintf("(mk_%s %s)", srt, strings.Join(fs, " "))
	if len(w.binders) > 0 {
		return T(whole, srt) // under a quantifier the value depends on the bound variables: no naming
	}
	c := w.fresh("sv", srt)
	w.assume(fmt.Sprintf("(= %s %s)", c.S, whole))
	return c
}

func fieldKey(structT types.Type, idx int) string {
	if p, ok := structT.Underlying().(*types.Pointer); ok {
		structT = p.Elem()
	}
	return fmt.Sprintf("%s#%d", types.TypeString(structT, nil), idx)
}

func (w *World) heapArr(st *State, key, elemSort string) Term {
	if a, ok := st.heap[key]; ok {
		return a
	}
	a := w.fresh("H_"+lastSeg(key), "(Array Int "+elemSort+")")
	st.heap[key] = a
	return a
}

var selemKeyRegistry = map[string]string{}

// elemKey names an element type canonically (byte and uint8, rune and int32 are the same heap).
func elemKey(t types.Type) string {
	t = types.Unalias(t)
	if b, ok := t.(*types.Basic); ok {
		switch b.Kind() {
		case types.Uint8:
			return "uint8"
		case types.Int32:
			return "int32"
		}
	}
	return types.TypeString(t, nil)
}

func (w *World) elemArr(st *State, elemT types.Type) (string, Term) {
	srt := w.sortOf(elemT)
	selemKeyRegistry[elemKey(elemT)] = w.selemFn(elemT)
	key := "E:" + elemKey(elemT)
	if a, ok := st.heap[key]; ok {
		return key, a
	}
	a := w.fresh("E_"+lastSeg(types.TypeString(elemT, nil)), "(Array Int (Array Int "+srt+"))")
	st.heap[key] = a
	return key, a
}

// mapHeaps returns the value and domain heaps of a map type (materialising them).
func (w *World) mapHeaps(st *State, mt *types.Map) (kv, kd string, vals, dom Term) {
	ks, vs := w.sortOf(mt.Key()), w.sortOf(mt.Elem())
	key := types.TypeString(mt, nil)
	kv, kd = "MV:"+key, "MD:"+key
	vals = w.heapArrSort(st, kv, "(Array Int (Array "+ks+" "+vs+"))")
	dom = w.heapArrSort(st, kd, "(Array Int (Array "+ks+" Bool))")
	return
}

func (w *World) heapArrSort(st *State, key, sort string) Term {
	if a, ok := st.heap[key]; ok {
		return a
	}
	a := w.fresh("H_"+lastSeg(key), sort)
	st.heap[key] = a
	return a
}

// selemFn returns (declaring on demand) the element-read function for slices of elemT.
func (w *World) selemFn(elemT types.Type) string {
	srt := w.sortOf(elemT)
	name := "selem_" + sanitize.ReplaceAllString(srt, "_")
	if !w.pureDecl[name] {
		w.pureDecl[name] = true
		w.decls = append(w.decls, fmt.Sprintf("(declare-fun %s ((Array Int (Array Int %s)) Slice Int) %s)", name, srt, srt))
		w.assumeGlobal(fmt.Sprintf("(forall ((E (Array Int (Array Int %s))) (s Slice) (k Int)) (! (= (%s E s k) (select (select E (sbase s)) (+ (soff s) k))) :pattern ((%s E s k))))", srt, name, name))
	}
	return name
}

// subRef is the derived reference of the by-value struct field i of object ref (interior pointer).
func (w *World) subRef(parent types.Type, i int, ref Term) Term {
	name := fmt.Sprintf("sub_%s_%d", sanitize.ReplaceAllString(lastSeg(types.TypeString(parent, nil)), "_"), i)
	if !w.pureDecl[name] {
		w.pureDecl[name] = true
		w.decls = append(w.decls, fmt.Sprintf("(declare-fun %s (Int) Int)", name))
		w.assumeGlobal(fmt.Sprintf("(forall ((r Int)) (! (=> (not (= r 0)) (not (= (%s r) 0))) :pattern ((%s r))))", name, name))
	}
	return T(fmt.Sprintf("(%s %s)", name, ref.S), "Int")
}

// supdFn returns (declaring on demand) the element-update function for slices of elemT.
func (w *World) supdFn(elemT types.Type) string {
	srt := w.sortOf(elemT)
	sel := w.selemFn(elemT)
	name := "supd_" + sanitize.ReplaceAllString(srt, "_")
	if !w.pureDecl[name] {
		w.pureDecl[name] = true
		hs := "(Array Int (Array Int " + srt + "))"
		w.decls = append(w.decls, fmt.Sprintf("(declare-fun %s (%s Slice Int %s) %s)", name, hs, srt, hs))
		w.assumeGlobal(fmt.Sprintf("(forall ((E %s) (s Slice) (i Int) (v %s) (s2 Slice) (j Int)) (! (= (%s (%s E s i v) s2 j) (ite (and (= (sbase s2) (sbase s)) (= (+ (soff s2) j) (+ (soff s) i))) v (%s E s2 j))) :pattern ((%s (%s E s i v) s2 j))))", hs, srt, sel, name, sel, sel, name))
	}
	return name
}

// project walks a by-value field path inside a struct-sorted term.
func (w *World) project(v Term, t types.Type, path []int) (Term, types.Type) {
	for _, i := range path {
		st := t.Underlying().(*types.Struct)
		srt := w.sortOf(t)
		ft := st.Field(i).Type()
		v = T(fmt.Sprintf("(%s_f%d %s)", srt, i, v.S), w.sortOf(ft))
		t = ft
	}
	return v, t
}

// inject returns root value with the sub-value at path replaced.
func (w *World) inject(root Term, t types.Type, path []int, nv Term) Term {
	if len(path) == 0 {
		return nv
	}
	st := t.Underlying().(*types.Struct)
	srt := w.sortOf(t)
	var fs []string
	for i := 0; i < st.NumFields(); i++ {
		fv := T(fmt.Sprintf("(%s_f%d %s)", srt, i, root.S), w.sortOf(st.Field(i).Type()))
		if i == path[0] {
			fv = w.inject(fv, st.Field(i).Type(), path[1:], nv)
		}
		fs = append(fs, fv.S)
	}
	// name the rebuilt value so that term text stays linear in the number of stores
	c := w.fresh("sv", srt)
	w.assume(fmt.Sprintf("(= %s (mk_%s %s))", c.S, srt, strings.Join(fs, " ")))
	return c
}

func (w *World) loadAddr(a Addr, st *State, resT types.Type) Term {
	var root Term
	switch a.kind {
	case "cell":
		v, ok := st.cells[a.alloc]
		if !ok {
			v = w.freshTyped("c_"+a.alloc.Comment, a.typ)
			st.cells[a.alloc] = v
		}
		root = v
	case "heap":
		if stt, ok := perField(a); ok {
			registerStruct(a.typ)
			if len(a.path) == 0 {
				root = w.loadWhole(a, st, stt)
			} else {
				ft := stt.Field(a.path[0]).Type()
				arr := w.heapArr(st, fldKey(a.key, a.path[0]), w.sortOf(ft))
				root = T(fmt.Sprintf("(select %s %s)", arr.S, a.ref.S), w.sortOf(ft))
				a.typ, a.path = ft, a.path[1:]
			}
			break
		}
		arr := w.heapArr(st, a.key, w.sortOf(a.typ))
		root = T(fmt.Sprintf("(select %s %s)", arr.S, a.ref.S), w.sortOf(a.typ))
	case "elem":
		_, arr := w.elemArr(st, a.typ)
		root = T(fmt.Sprintf("(%s %s %s %s)", w.selemFn(a.typ), arr.S, a.slice.S, a.idx.S), w.sortOf(a.typ))
	default:
		return w.freshTyped("ld", resT)
	}
	v, t := w.project(root, a.typ, a.path)
	heapBound := false
	for _, bd := range w.binders {
		if strings.HasPrefix(bd.sort, "(Array") {
			heapBound = true // inside an axiom closed over heaps: typing facts about "every heap" would be false
		}
	}
	if !heapBound {
		for _, f := range w.typeFacts(v, t) {
			// guarded by the path condition: a local may hold a derived value (data[k:]) that is well-formed only on this path
			if st.pc != "" && st.pc != "true" {
				w.assume(fmt.Sprintf("(=> %s %s)", st.pc, f))
			} else {
				w.assume(f)
			}
		}
	}
	// (not inside an axiom closed over heaps: "allocated in every allocation set" would be false)
	if al, ok := st.heap["alloc"]; ok && !heapBound {
		if pt, isPtr := t.Underlying().(*types.Pointer); isPtr {
			if _, isStruct := pt.Elem().Underlying().(*types.Struct); isStruct {
				w.assume(fmt.Sprintf("(or (= %s 0) (select %s %s))", v.S, al.S, v.S))
			}
		} else if isSlice(t) {
			w.assume(fmt.Sprintf("(or (= (sbase %s) 0) (select %s (sbase %s)))", v.S, al.S, v.S))
		} else if _, isMap := t.Underlying().(*types.Map); isMap {
			w.assume(fmt.Sprintf("(or (= %s 0) (select %s %s))", v.S, al.S, v.S))
		}
	}
	return v
}

func (w *World) storeAddr(a Addr, v Term, st *State) {
	switch a.kind {
	case "cell":
		old, ok := st.cells[a.alloc]
		if !ok {
			old = w.freshTyped("c_"+a.alloc.Comment, a.typ)
		}
		st.cells[a.alloc] = w.inject(old, a.typ, a.path, v)
	case "heap":
		if stt, ok := perField(a); ok {
			registerStruct(a.typ)
			if len(a.path) == 0 {
				srt := w.sortOf(a.typ)
				for i := 0; i < stt.NumFields(); i++ {
					k := fldKey(a.key, i)
					arr := w.heapArr(st, k, w.sortOf(stt.Field(i).Type()))
					st.heap[k] = T(fmt.Sprintf("(store %s %s (%s_f%d %s))", arr.S, a.ref.S, srt, i, v.S), arr.Sort)
				}
				return
			}
			ft := stt.Field(a.path[0]).Type()
			k := fldKey(a.key, a.path[0])
			arr := w.heapArr(st, k, w.sortOf(ft))
			old := T(fmt.Sprintf("(select %s %s)", arr.S, a.ref.S), w.sortOf(ft))
			nv := w.inject(old, ft, a.path[1:], v)
			st.heap[k] = T(fmt.Sprintf("(store %s %s %s)", arr.S, a.ref.S, nv.S), arr.Sort)
			return
		}
		arr := w.heapArr(st, a.key, w.sortOf(a.typ))
		old := T(fmt.Sprintf("(select %s %s)", arr.S, a.ref.S), w.sortOf(a.typ))
		nv := w.inject(old, a.typ, a.path, v)
		st.heap[a.key] = T(fmt.Sprintf("(store %s %s %s)", arr.S, a.ref.S, nv.S), arr.Sort)
	case "elem":
		key, arr := w.elemArr(st, a.typ)
		old := T(fmt.Sprintf("(%s %s %s %s)", w.selemFn(a.typ), arr.S, a.slice.S, a.idx.S), w.sortOf(a.typ))
		nv := w.inject(old, a.typ, a.path, v)
		// element update through an uninterpreted function with read-over-write axioms phrased on selem (no arithmetic in triggers)
		st.heap[key] = T(fmt.Sprintf("(%s %s %s %s %s)", w.supdFn(a.typ), arr.S, a.slice.S, a.idx.S, nv.S), arr.Sort)
	}
}

// ---------- obligations ----------

type Oblig struct {
	Name string
	Pos  token.Position
	PC   string
	Cond string
	Kind string
}

// ---------- generator ----------

type Gen struct {
	w            *World
	f            *ssa.Function
	ctr          *Contract
	phantom      map[string]bool // frame entries of callees naming heaps this function never touches
	all          map[string]*Contract
	vals         map[ssa.Value]Term
	addrs        map[ssa.Value]Addr
	extr         map[string]Term
	escaping     map[*ssa.Alloc]bool
	obs          []Oblig
	entry        *State
	params       map[string]*ssa.Parameter
	ghostOld     map[string]Term
	notes        []string
	loopOrd      map[*ssa.BasicBlock]int
	curBlock     *ssa.BasicBlock
	curPos       token.Pos
	loopRI       map[int]*ssa.Alloc
	loopRR       map[int]ssa.Value
	atCallUsed   map[string]bool
	callCount    map[string]int
	curState     *State
	selemByKey   map[string]string
	inlining     int
	outerDefers  [][]*ssa.Defer
	panicking    bool
	recovered    bool
	sliceTerms   []string // every slice-sorted term seen so far (for freshness of new backing arrays)
	staticDead   map[*ssa.BasicBlock]bool
	fvBind       map[string]ssa.Value // while a literal's contract is applied at its call site: captured variable name -> its address in the caller
	symPanicking *Term                // verifying a `recovers` function stand-alone: whether it runs because of a panic
	arrBase      map[*ssa.Alloc]Term
}

func (g *Gen) note(format string, a ...interface{}) {
	s := fmt.Sprintf(format, a...)
	for _, n := range g.notes {
		if n == s {
			return
		}
	}
	g.notes = append(g.notes, s)
}

func (g *Gen) addOb(kind, name string, pos token.Pos, st *State, cond string) {
	ob := Oblig{Name: name, Kind: kind, Pos: g.w.prog.Fset.Position(pos), PC: st.pc, Cond: cond}
	g.obs = append(g.obs, ob)
	g.w.events = append(g.w.events, event{ob: &ob})
	// assert-then-assume: visible only to LATER checks (events are ordered)
	g.w.assume(fmt.Sprintf("(=> %s %s)", st.pc, cond))
}

func (g *Gen) constTerm(c *ssa.Const) Term {
	t := c.Type()
	if c.Value == nil {
		return g.w.zero(t)
	}
	switch c.Value.Kind() {
	case constant.Bool:
		if constant.BoolVal(c.Value) {
			return tTrue
		}
		return tFalse
	case constant.Int:
		if i, ok := constant.Int64Val(c.Value); ok {
			return T(lit(i), "Int")
		}
		if u, ok := constant.Uint64Val(c.Value); ok {
			return T(fmt.Sprint(u), "Int")
		}
	case constant.String:
		return g.w.strLit(constant.StringVal(c.Value))
	}
	return g.w.freshTyped("k", t)
}

func (g *Gen) noteSlice(t Term) {
	if t.Sort != "Slice" {
		return
	}
	for _, s := range g.sliceTerms {
		if s == t.S {
			return
		}
	}
	g.sliceTerms = append(g.sliceTerms, t.S)
}

// freshBase asserts that base differs from the backing array of every slice seen so far.
func (g *Gen) freshBase(base string) {
	g.w.assume(fmt.Sprintf("(> %s 0)", base))
	if g.curState != nil {
		al := g.w.heapArrSort(g.curState, "alloc", "(Array Int Bool)")
		g.w.assume(fmt.Sprintf("(not (select %s %s))", al.S, base))
		g.curState.heap["alloc"] = T(fmt.Sprintf("(store %s %s true)", al.S, base), al.Sort)
	}
	for _, s := range g.sliceTerms {
		g.w.assume(fmt.Sprintf("(not (= %s (sbase %s)))", base, s))
	}
	// ... and w.r.t. every slice stored in the heap right now: in a field of some object or under some key of some map
	// (a new backing array is none of the arrays reachable before the allocation)
	if g.curState != nil {
		keys := make([]string, 0, len(g.curState.heap))
		for k := range g.curState.heap {
			keys = append(keys, k)
		}
		sort.Strings(keys)
		for _, k := range keys {
			h := g.curState.heap[k]
			switch {
			case h.Sort == "(Array Int Slice)":
				g.w.assume(fmt.Sprintf("(forall ((o Int)) (! (not (= (sbase (select %s o)) %s)) :pattern ((select %s o))))", h.S, base, h.S))
			case strings.HasPrefix(k, "MV:") && strings.HasSuffix(h.Sort, " Slice))") && strings.HasPrefix(h.Sort, "(Array Int (Array "):
				ks := strings.TrimSuffix(strings.TrimPrefix(h.Sort, "(Array Int (Array "), " Slice))")
				g.w.assume(fmt.Sprintf("(forall ((m Int) (k %s)) (! (not (= (sbase (select (select %s m) k)) %s)) :pattern ((select (select %s m) k))))", ks, h.S, base, h.S))
			}
		}
	}
}

func (g *Gen) val(v ssa.Value, st *State) Term {
	t := g.val0(v, st)
	g.noteSlice(t)
	return t
}

func (g *Gen) val0(v ssa.Value, st *State) Term {
	if c, ok := v.(*ssa.Const); ok {
		return g.constTerm(c)
	}
	if t, ok := g.vals[v]; ok {
		return t
	}
	var t Term
	switch x := v.(type) {
	case *ssa.Parameter:
		t = g.w.freshTyped("p_"+x.Name(), x.Type())
	case *ssa.FreeVar:
		t = g.w.freshTyped("fv_"+x.Name(), x.Type())
	case *ssa.Global:
		t = T("0", "Int") // address of global; loads handled by resolveAddr
		if et, ok := x.Type().Underlying().(*types.Pointer); ok {
			if stt, isStruct := et.Elem().Underlying().(*types.Struct); isStruct && stt.NumFields() > 0 {
				// a struct-typed package variable is an object like any other (its address may be a receiver or an
				// argument): a fixed, non-nil reference of its own
				t = g.w.globalRef("G:" + x.String())
			}
		}
	case *ssa.Function:
		if x.Parent() == nil && x.Pkg != nil {
			// a declared function used as a value: one fixed non-nil reference per function (distinct from the others)
			t = g.w.globalRef("F:" + x.String())
		} else {
			t = g.w.fresh("fn", "Int")
			g.w.assume(fmt.Sprintf("(not (= %s 0))", t.S))
		}
	case *ssa.FieldAddr, *ssa.IndexAddr:
		// an address used as a VALUE (stored, passed on): an opaque non-nil reference
		t = g.w.fresh("adr", "Int")
		g.w.assumeGlobal(fmt.Sprintf("(not (= %s 0))", t.S))
	default:
		t = g.w.freshTyped("v", v.Type())
	}
	g.vals[v] = t
	return t
}

func (g *Gen) resolveAddr(v ssa.Value, st *State) Addr {
	if a, ok := g.addrs[v]; ok {
		return a
	}
	switch x := v.(type) {
	case *ssa.Alloc:
		et := x.Type().Underlying().(*types.Pointer).Elem()
		if g.escaping[x] {
			// heap object with its own ref; structs under "obj:<type>" (split per field), everything else under "ptr:<type>"
			// (the same heap a pointer VALUE of that type addresses, so that &local passed to a callee aliases correctly)
			if _, isStruct := et.Underlying().(*types.Struct); !isStruct {
				return Addr{kind: "heap", key: "ptr:" + types.TypeString(et, nil), ref: g.val(x, st), typ: et}
			}
			return Addr{kind: "heap", key: "obj:" + types.TypeString(et, nil), ref: g.val(x, st), typ: et}
		}
		return Addr{kind: "cell", alloc: x, typ: et}
	case *ssa.Global:
		et := x.Type().Underlying().(*types.Pointer).Elem()
		if stt, isStruct := et.Underlying().(*types.Struct); isStruct && stt.NumFields() > 0 {
			return Addr{kind: "heap", key: "obj:" + types.TypeString(et, nil), ref: g.w.globalRef("G:" + x.String()), typ: et}
		}
		return Addr{kind: "heap", key: "G:" + x.String(), ref: T("0", "Int"), typ: et}
	}
	// a pointer VALUE to a struct: object stored whole under key "obj:<type>"
	if p, ok := v.Type().Underlying().(*types.Pointer); ok {
		if _, isStruct := p.Elem().Underlying().(*types.Struct); isStruct {
			return Addr{kind: "heap", key: "obj:" + types.TypeString(p.Elem(), nil), ref: g.val(v, st), typ: p.Elem()}
		}
		return Addr{kind: "heap", key: "ptr:" + types.TypeString(p.Elem(), nil), ref: g.val(v, st), typ: p.Elem()}
	}
	return Addr{kind: "unknown"}
}

func (g *Gen) tupleElem(tv ssa.Value, idx int, t types.Type) Term {
	k := fmt.Sprintf("%p:%d", tv, idx)
	if v, ok := g.extr[k]; ok {
		return v
	}
	v := g.w.freshTyped("ex", t)
	g.extr[k] = v
	return v
}

func (g *Gen) setTuple(tv ssa.Value, idx int, v Term) { g.extr[fmt.Sprintf("%p:%d", tv, idx)] = v }

func computeEscaping(f *ssa.Function) map[*ssa.Alloc]bool {
	esc := map[*ssa.Alloc]bool{}
	for _, b := range f.Blocks {
		for _, in := range b.Instrs {
			al, ok := in.(*ssa.Alloc)
			if !ok {
				continue
			}
			for _, r := range *al.Referrers() {
				switch u := r.(type) {
				case *ssa.Store:
					if u.Val == al {
						esc[al] = true
					}
				case *ssa.UnOp, *ssa.FieldAddr, *ssa.IndexAddr, *ssa.DebugRef:
				default:
					esc[al] = true
				}
			}
		}
	}
	return esc
}

func (g *Gen) wrap(term string, t types.Type) string {
	if isUnsigned(t) {
		return fmt.Sprintf("(mod %s %s)", term, pow2(intBits(t)))
	}
	return term
}

func (g *Gen) havocHeapAll(st *State, except map[string]bool) {
	for k, a := range st.heap {
		if except != nil && except[k] {
			continue
		}
		st.heap[k] = g.w.fresh("Hh", a.Sort)
	}
}

func calleeName(c *ssa.CallCommon) string {
	if c.IsInvoke() {
		return "invoke:" + c.Method.FullName()
	}
	if f, ok := c.Value.(*ssa.Function); ok {
		return f.String()
	}
	if b, ok := c.Value.(*ssa.Builtin); ok {
		return "builtin:" + b.Name()
	}
	if mc, ok := c.Value.(*ssa.MakeClosure); ok {
		return "literal:" + mc.Fn.Name()
	}
	return "dynamic"
}

// singleAssignedLiteral: v is a load from a local cell whose only store puts a function literal there (a closure, or -
// for a literal without free variables - the anonymous function itself).
func singleAssignedLiteral(v ssa.Value) (*ssa.MakeClosure, *ssa.Function) {
	u, ok := v.(*ssa.UnOp)
	if !ok || u.Op != token.MUL {
		return nil, nil
	}
	al, ok := u.X.(*ssa.Alloc)
	if !ok || al.Referrers() == nil {
		return nil, nil
	}
	var mc *ssa.MakeClosure
	var fn *ssa.Function
	n := 0
	for _, r := range *al.Referrers() {
		switch x := r.(type) {
		case *ssa.Store:
			if x.Addr != al {
				return nil, nil // the address escapes into another cell
			}
			n++
			switch m := x.Val.(type) {
			case *ssa.MakeClosure:
				mc = m
			case *ssa.Function:
				if m.Parent() == nil {
					return nil, nil
				}
				fn = m
			default:
				return nil, nil
			}
		case *ssa.UnOp, *ssa.DebugRef:
		default:
			return nil, nil // address taken (captured by another closure, passed on): be conservative
		}
	}
	if n != 1 {
		return nil, nil
	}
	return mc, fn
}

func (g *Gen) sliceLen(x ssa.Value, st *State) string {
	t := x.Type().Underlying()
	if p, ok := t.(*types.Pointer); ok {
		if arr, ok := p.Elem().Underlying().(*types.Array); ok {
			return fmt.Sprint(arr.Len())
		}
	}
	if arr, ok := t.(*types.Array); ok {
		return fmt.Sprint(arr.Len())
	}
	v := g.val(x, st)
	if isString(x.Type()) {
		return fmt.Sprintf("(strlen %s)", v.S)
	}
	if _, isMap := t.(*types.Map); isMap || v.Sort != "Slice" {
		// len of a map (or channel): an unknown non-negative number
		if !g.w.pureDecl["reflen"] {
			g.w.pureDecl["reflen"] = true
			g.w.decls = append(g.w.decls, "(declare-fun reflen (Int Int) Int)")
			g.w.assumeGlobal("(forall ((r Int) (k Int)) (! (>= (reflen r k) 0) :pattern ((reflen r k))))")
		}
		g.w.n++
		return fmt.Sprintf("(reflen %s %d)", v.S, g.w.n)
	}
	return fmt.Sprintf("(slen %s)", v.S)
}

func (g *Gen) instr(in ssa.Instruction, st *State) {
	g.w.curPC = st.pc
	defer func() { g.w.curPC = "" }()
	w := g.w
	g.curState = st
	if in.Pos().IsValid() {
		g.curPos = in.Pos()
	}
	switch v := in.(type) {
	case *ssa.DebugRef:
	case *ssa.Alloc:
		et := v.Type().Underlying().(*types.Pointer).Elem()
		if at, isArr := et.Underlying().(*types.Array); isArr {
			// arrays (incl. the varargs temporaries of append) live in the element heap under a fresh base
			b := w.fresh("arr_"+v.Comment, "Int")
			g.freshBase(b.S)
			if g.arrBase == nil {
				g.arrBase = map[*ssa.Alloc]Term{}
			}
			g.arrBase[v] = T(fmt.Sprintf("(mk_slice %s 0 %d %d)", b.S, at.Len(), at.Len()), "Slice")
			g.vals[v] = b
			return
		}
		if g.escaping[v] {
			r := w.fresh("new_"+v.Comment, "Int")
			w.assume(fmt.Sprintf("(> %s 0)", r.S))
			al := w.heapArrSort(st, "alloc", "(Array Int Bool)")
			w.assume(fmt.Sprintf("(not (select %s %s))", al.S, r.S)) // fresh: not allocated before
			st.heap["alloc"] = T(fmt.Sprintf("(store %s %s true)", al.S, r.S), al.Sort)
			// interior objects (by-value struct fields, addressed through derived refs) are allocated with their parent
			var interior func(t types.Type, ref Term, depth int)
			interior = func(t types.Type, ref Term, depth int) {
				stt, ok := t.Underlying().(*types.Struct)
				if !ok || depth > 3 {
					return
				}
				for i := 0; i < stt.NumFields(); i++ {
					if _, isS := stt.Field(i).Type().Underlying().(*types.Struct); isS {
						sr := w.subRef(t, i, ref)
						cur := st.heap["alloc"]
						w.assume(fmt.Sprintf("(not (select %s %s))", cur.S, sr.S))
						st.heap["alloc"] = T(fmt.Sprintf("(store %s %s true)", cur.S, sr.S), cur.Sort)
						// the interior object is zero-initialised with its parent (it is addressed through its own heaps)
						ft := stt.Field(i).Type()
						registerStruct(ft)
						w.storeAddr(Addr{kind: "heap", key: "obj:" + types.TypeString(ft, nil), ref: sr, typ: ft}, w.zero(ft), st)
						interior(stt.Field(i).Type(), sr, depth+1)
					}
				}
			}
			interior(et, r, 0)
			g.vals[v] = r
			a := g.resolveAddr(v, st)
			w.storeAddr(a, w.zero(et), st)
		} else {
			st.cells[v] = w.zero(et)
		}
	case *ssa.Store:
		g.fieldStoreClauses(v, st)
		if al, ok := v.Addr.(*ssa.Alloc); ok && g.arrBase[al].S != "" {
			// whole-array assignment to a local array (`for _, pair := range pairs`): element by element into its cells
			if at, ok := al.Type().Underlying().(*types.Pointer).Elem().Underlying().(*types.Array); ok && at.Len() <= 16 {
				val := g.val(v.Val, st)
				for i := int64(0); i < at.Len(); i++ {
					ea := Addr{kind: "elem", slice: g.arrBase[al], idx: T(fmt.Sprint(i), "Int"), typ: at.Elem()}
					w.storeAddr(ea, T(fmt.Sprintf("(select %s %d)", val.S, i), w.sortOf(at.Elem())), st)
				}
				return
			}
		}
		a := g.resolveAddr(v.Addr, st)
		w.storeAddr(a, g.val(v.Val, st), st)
	case *ssa.UnOp:
		switch v.Op {
		case token.MUL:
			if gl, ok := v.X.(*ssa.Global); ok && gl.Name() == "init$guard" {
				// the package initialiser is verified for its one real execution
				g.vals[v] = T("false", "Bool")
				return
			}
			a := g.resolveAddr(v.X, st)
			if a.kind == "heap" && strings.HasPrefix(a.key, "obj:") || a.kind == "heap" && strings.HasPrefix(a.key, "ptr:") {
				g.addNilOb(v.X, st, v.Pos())
			}
			g.vals[v] = w.loadAddr(a, st, v.Type())
		case token.NOT:
			g.vals[v] = T(fmt.Sprintf("(not %s)", g.val(v.X, st).S), "Bool")
		case token.SUB:
			g.vals[v] = T(g.wrap(fmt.Sprintf("(- %s)", g.val(v.X, st).S), v.Type()), "Int")
		default:
			g.vals[v] = w.freshTyped("u", v.Type())
		}
	case *ssa.FieldAddr:
		if nilFieldObs {
			switch v.X.(type) {
			case *ssa.Parameter, *ssa.UnOp, *ssa.Call, *ssa.Extract, *ssa.Phi, *ssa.TypeAssert, *ssa.Lookup:
				if _, isPtr := v.X.Type().Underlying().(*types.Pointer); isPtr {
					g.addNilOb(v.X, st, v.Pos())
				}
			}
		}
		base := g.resolveAddr(v.X, st)
		if base.kind == "unknown" {
			g.addrs[v] = base
			return
		}
		// by-value struct field of a heap object: its own object with a derived ref (interior pointer)
		if base.kind == "heap" && len(base.path) == 0 && strings.HasPrefix(base.key, "obj:") {
			st0 := base.typ.Underlying().(*types.Struct)
			ft := st0.Field(v.Field).Type()
			if _, isStruct := ft.Underlying().(*types.Struct); isStruct {
				registerStruct(ft)
				g.addrs[v] = Addr{kind: "heap", key: "obj:" + types.TypeString(ft, nil), ref: w.subRef(base.typ, v.Field, base.ref), typ: ft}
				g.vals[v] = w.subRef(base.typ, v.Field, base.ref)
				return
			}
		}
		// base addresses a struct value (cell/heap obj/elem) possibly with path
		na := base
		na.path = append(append([]int{}, base.path...), v.Field)
		g.addrs[v] = na
	case *ssa.Field:
		x := g.val(v.X, st)
		r, _ := w.project(x, v.X.Type(), []int{v.Field})
		g.vals[v] = r
	case *ssa.IndexAddr:
		idx := g.val(v.Index, st)
		ln := g.sliceLen(v.X, st)
		g.addOb("index", fmt.Sprintf("index@%d", g.w.prog.Fset.Position(v.Pos()).Line), v.Pos(), st, fmt.Sprintf("(and (<= 0 %s) (< %s %s))", idx.S, idx.S, ln))
		if sl, ok := v.X.Type().Underlying().(*types.Slice); ok {
			x := g.val(v.X, st)
			g.addrs[v] = Addr{kind: "elem", slice: x, idx: idx, typ: sl.Elem()}
		} else if al, ok := v.X.(*ssa.Alloc); ok && g.arrBase[al].S != "" {
			at := al.Type().Underlying().(*types.Pointer).Elem().Underlying().(*types.Array)
			g.addrs[v] = Addr{kind: "elem", slice: g.arrBase[al], idx: idx, typ: at.Elem()}
		} else {
			// pointer to array: element of array-valued object
			g.addrs[v] = Addr{kind: "unknown"}
		}
	case *ssa.Index:
		idx := g.val(v.Index, st)
		ln := g.sliceLen(v.X, st)
		g.addOb("index", fmt.Sprintf("index@%d", g.w.prog.Fset.Position(v.Pos()).Line), v.Pos(), st, fmt.Sprintf("(and (<= 0 %s) (< %s %s))", idx.S, idx.S, ln))
		if isString(v.X.Type()) {
			g.vals[v] = T(fmt.Sprintf("(sat %s %s)", g.val(v.X, st).S, idx.S), "Int")
		} else {
			g.vals[v] = w.freshTyped("ix", v.Type())
		}
	case *ssa.Lookup:
		if mt, ok := v.X.Type().Underlying().(*types.Map); ok {
			m := g.val(v.X, st)
			k := g.val(v.Index, st)
			_, _, vals, dom := w.mapHeaps(st, mt)
			val := T(fmt.Sprintf("(select (select %s %s) %s)", vals.S, m.S, k.S), w.sortOf(mt.Elem()))
			has := T(fmt.Sprintf("(select (select %s %s) %s)", dom.S, m.S, k.S), "Bool")
			w.assume(fmt.Sprintf("(=> (not %s) (= %s %s))", has.S, val.S, w.zero(mt.Elem()).S))
			// the nil map has no keys
			w.assume(fmt.Sprintf("(=> %s (not (= %s 0)))", has.S, m.S))
			for _, f := range w.typeFacts(val, mt.Elem()) {
				w.assume(f)
			}
			if v.CommaOk {
				g.setTuple(v, 0, val)
				g.setTuple(v, 1, has)
			} else {
				g.vals[v] = val
			}
		} else {
			idx := g.val(v.Index, st)
			ln := g.sliceLen(v.X, st)
			g.addOb("index", fmt.Sprintf("index@%d", g.w.prog.Fset.Position(v.Pos()).Line), v.Pos(), st, fmt.Sprintf("(and (<= 0 %s) (< %s %s))", idx.S, idx.S, ln))
			g.vals[v] = T(fmt.Sprintf("(sat %s %s)", g.val(v.X, st).S, idx.S), "Int")
		}
	case *ssa.Slice:
		ln := g.sliceLen(v.X, st)
		lo, hi := "0", ln
		if v.Low != nil {
			lo = g.val(v.Low, st).S
		}
		if v.High != nil {
			hi = g.val(v.High, st).S
		}
		bound := ln
		x := g.val(v.X, st)
		if isSlice(v.X.Type()) {
			bound = fmt.Sprintf("(scap %s)", x.S)
		}
		g.addOb("slice", fmt.Sprintf("slice@%d", g.w.prog.Fset.Position(v.Pos()).Line), v.Pos(), st, fmt.Sprintf("(and (<= 0 %s) (<= %s %s) (<= %s %s))", lo, lo, hi, hi, bound))
		if isSlice(v.X.Type()) {
			g.vals[v] = T(fmt.Sprintf("(mk_slice (sbase %s) (+ (soff %s) %s) (- %s %s) (- (scap %s) %s))", x.S, x.S, lo, hi, lo, x.S, lo), "Slice")
		} else if isString(v.X.Type()) {
			if v.High == nil {
				g.vals[v] = T(fmt.Sprintf("(ssuf %s %s)", x.S, lo), "Str")
			} else {
				g.vals[v] = T(fmt.Sprintf("(ssub %s %s %s)", x.S, lo, hi), "Str")
			}
		} else if al, ok := v.X.(*ssa.Alloc); ok && g.arrBase[al].S != "" {
			ab := g.arrBase[al]
			g.vals[v] = T(fmt.Sprintf("(mk_slice (sbase %s) %s (- %s %s) (- (scap %s) %s))", ab.S, lo, hi, lo, ab.S, lo), "Slice")
		} else {
			r := w.fresh("arrslice", "Slice")
			w.assume(fmt.Sprintf("(and (= (slen %s) (- %s %s)) (<= (slen %s) (scap %s)) (>= (soff %s) 0))", r.S, hi, lo, r.S, r.S, r.S))
			g.vals[v] = r
		}
	case *ssa.BinOp:
		g.vals[v] = g.binop(v, st)
	case *ssa.Phi:
		// NaiveForm: only from && ||. Build ite over predecessors' path conditions is not available here; fresh.
		g.vals[v] = w.freshTyped("phi", v.Type())
		g.note("phi abstracted")
	case *ssa.Call:
		g.call(&v.Call, v, st, v.Pos())
	case *ssa.Defer:
		st.defers = append(st.defers, v)
	case *ssa.Go:
		g.note("go statement not modelled")
		// `go func(){...}()` on a literal that has a contract: its preconditions are obligations at the go statement (what
		// the goroutine relies on must hold when it is started); its effects are not modelled (a scratch state takes them)
		if mc, ok := v.Call.Value.(*ssa.MakeClosure); ok {
			scratch := st.clone()
			g.callLiteralByContract(mc, v.Call.Args, nil, scratch, v.Pos())
		} else if callee, ok := v.Call.Value.(*ssa.Function); ok {
			if ctr := g.lookupContract(callee); ctr != nil && !ctr.Pure {
				scratch := st.clone()
				var ats []Term
				for _, a := range v.Call.Args {
					ats = append(ats, g.val(a, st))
				}
				g.callWithContract(callee, ctr, ats, nil, scratch, v.Pos())
			}
		}
		if ghostInts["spawned"] {
			// built-in ghost counter (when the unit declares `ghost spawned int`): the number of goroutines launched;
			// what they do is not modelled, that they were started is
			arr := w.heapArr(st, "ghost:spawned", "Int")
			st.heap["ghost:spawned"] = T(fmt.Sprintf("(store %s 0 (+ (select %s 0) 1))", arr.S, arr.S), arr.Sort)
		}
	case *ssa.Extract:
		g.vals[v] = g.tupleElem(v.Tuple, v.Index, v.Type())
	case *ssa.MakeSlice:
		ln := g.val(v.Len, st)
		g.addOb("makeslice", fmt.Sprintf("makeslice@%d", g.w.prog.Fset.Position(v.Pos()).Line), v.Pos(), st, fmt.Sprintf("(>= %s 0)", ln.S))
		r := w.fresh("mk", "Slice")
		w.assume(fmt.Sprintf("(and (= (slen %s) %s) (= (soff %s) 0) (>= (scap %s) %s) (> (sbase %s) 0))", r.S, ln.S, r.S, r.S, ln.S, r.S))
		g.vals[v] = r
	case *ssa.ChangeInterface:
		g.vals[v] = g.val(v.X, st) // same dynamic value, another static interface type
	case *ssa.MakeMap, *ssa.MakeChan, *ssa.MakeClosure, *ssa.MakeInterface:
		r := w.fresh("o", "Int")
		if mm, isMap := v.(*ssa.MakeMap); isMap {
			w.assume(fmt.Sprintf("(> %s 0)", r.S))
			// a new map is not in the allocation set (maps read from the heap or passed in are)
			al := w.heapArrSort(st, "alloc", "(Array Int Bool)")
			w.assume(fmt.Sprintf("(not (select %s %s))", al.S, r.S))
			st.heap["alloc"] = T(fmt.Sprintf("(store %s %s true)", al.S, r.S), al.Sort)
			// a new map differs from every map value of that type computed so far (prototype stand-in for the allocation set)
			for ov, ot := range g.vals {
				if ov != nil && ov != v.(ssa.Value) && types.Identical(ov.Type().Underlying(), mm.Type().Underlying()) && ot.Sort == "Int" {
					w.assume(fmt.Sprintf("(not (= %s %s))", r.S, ot.S))
				}
			}
			if mt, ok := mm.Type().Underlying().(*types.Map); ok {
				_, _, _, dom := w.mapHeaps(st, mt)
				w.assume(fmt.Sprintf("(= (select %s %s) ((as const (Array %s Bool)) false))", dom.S, r.S, w.sortOf(mt.Key())))
			}
		}
		if mi, ok := v.(*ssa.MakeInterface); ok {
			// keep payload identity for pointer payloads
			if _, isPtr := mi.X.Type().Underlying().(*types.Pointer); isPtr {
				r = g.val(mi.X, st)
			} else {
				// a value payload: a non-nil interface value tagged with its dynamic type (is(x, T) in specifications)
				w.assume(fmt.Sprintf("(and (> %s 0) (= (%s %s) %d))", r.S, w.itypeFn(), r.S, typeID(mi.X.Type())))
			}
		}
		g.vals[v.(ssa.Value)] = r
	case *ssa.ChangeType:
		g.vals[v] = g.val(v.X, st)
	case *ssa.Convert:
		g.vals[v] = g.convert(v, st)
	case *ssa.TypeAssert:
		if !v.CommaOk {
			g.vals[v] = w.freshTyped("ta", v.Type())
			// past a successful assertion to a reference-like type the result is the same reference
			if x := g.val(v.X, st); x.Sort == "Int" && g.vals[v].Sort == "Int" {
				switch v.AssertedType.Underlying().(type) {
				case *types.Pointer, *types.Interface:
					w.assume(fmt.Sprintf("(= %s %s)", g.vals[v].S, x.S))
				}
			}
			if _, isPtr := v.AssertedType.Underlying().(*types.Pointer); isPtr {
				w.assume(fmt.Sprintf("(not (= %s 0))", g.vals[v].S))
				g.note("spec used: type assertion to a pointer type yields non-nil (typed-nil interface values and failing assertions not modelled)")
			}
		} else {
			val := g.tupleElem(v, 0, v.AssertedType)
			ok := g.tupleElem(v, 1, types.Typ[types.Bool])
			// a failed assertion yields the zero value; a successful one to a reference-like type yields the same reference
			w.assume(fmt.Sprintf("(=> (not %s) (= %s %s))", ok.S, val.S, w.zero(v.AssertedType).S))
			x := g.val(v.X, st)
			if x.Sort == "Int" && val.Sort == "Int" {
				switch v.AssertedType.Underlying().(type) {
				case *types.Pointer, *types.Interface:
					w.assume(fmt.Sprintf("(=> %s (= %s %s))", ok.S, val.S, x.S))
				}
			}
			if _, isIface := v.AssertedType.Underlying().(*types.Interface); isIface && val.Sort == "Int" {
				// x, ok := i.(I): a nil interface value satisfies no assertion, so when ok the result is non-nil (language semantics)
				w.assume(fmt.Sprintf("(=> %s (not (= %s 0)))", ok.S, val.S))
			}
			if _, isPtr := v.AssertedType.Underlying().(*types.Pointer); isPtr {
				// x, ok := i.(*T): when ok, x is taken to be non-nil (interface values holding a typed nil pointer are not modelled: listed)
				w.assume(fmt.Sprintf("(=> %s (not (= %s 0)))", ok.S, val.S))
				g.note("spec used: comma-ok type assertion to a pointer type yields non-nil when ok")
			}
		}
	case *ssa.Range:
	case *ssa.Next:
		if v.IsString {
			rng := v.Iter.(*ssa.Range)
			ln := g.sliceLen(rng.X, st)
			k := g.tupleElem(v, 1, types.Typ[types.Int])
			ok := g.tupleElem(v, 0, types.Typ[types.Bool])
			w.assume(fmt.Sprintf("(=> %s (and (<= 0 %s) (< %s %s)))", ok.S, k.S, k.S, ln))
		} else if rng, isR := v.Iter.(*ssa.Range); isR {
			// map iteration: when ok, the key is in the map's domain (as it is now) and the value is the one stored under it
			if mt, isMap := rng.X.Type().Underlying().(*types.Map); isMap {
				m := g.val(rng.X, st)
				_, _, vals, dom := w.mapHeaps(st, mt)
				ok := g.tupleElem(v, 0, types.Typ[types.Bool])
				k := g.tupleElem(v, 1, mt.Key())
				val := g.tupleElem(v, 2, mt.Elem())
				w.assume(fmt.Sprintf("(=> %s (and (select (select %s %s) %s) (= %s (select (select %s %s) %s))))", ok.S, dom.S, m.S, k.S, val.S, vals.S, m.S, k.S))
			}
		}
	case *ssa.RunDefers:
		g.runDefers(st)
	case *ssa.MapUpdate:
		mt := v.Map.Type().Underlying().(*types.Map)
		m, k, val := g.val(v.Map, st), g.val(v.Key, st), g.val(v.Value, st)
		kv, kd, vals, dom := w.mapHeaps(st, mt)
		g.addOb("nilmap", fmt.Sprintf("nilmap@%d", g.w.prog.Fset.Position(v.Pos()).Line), v.Pos(), st, fmt.Sprintf("(not (= %s 0))", m.S))
		g.mapUpdateClauses(v, st)
		// the updated heaps are NAMED: the update mentions the old heap twice, so nesting the text would double it per
		// store (a 25-entry map literal would need 2^25 copies)
		nv := w.fresh("Hmu", vals.Sort)
		nd := w.fresh("Hmd", dom.Sort)
		w.assume(fmt.Sprintf("(= %s (store %s %s (store (select %s %s) %s %s)))", nv.S, vals.S, m.S, vals.S, m.S, k.S, val.S))
		w.assume(fmt.Sprintf("(= %s (store %s %s (store (select %s %s) %s true)))", nd.S, dom.S, m.S, dom.S, m.S, k.S))
		st.heap[kv] = nv
		st.heap[kd] = nd
	case *ssa.Select:
		// the chosen case: one of the listed ones for a blocking select, or -1 (default) for a non-blocking one
		idx := g.tupleElem(v, 0, types.Typ[types.Int])
		lo := "0"
		if !v.Blocking {
			lo = "(- 1)"
		}
		w.assume(fmt.Sprintf("(and (<= %s %s) (< %s %d))", lo, idx.S, idx.S, len(v.States)))
	case *ssa.Send, *ssa.Jump, *ssa.If:
	case *ssa.Return:
		if g.inlining == 0 {
			g.checkEnsures(v, st)
		}
	case *ssa.Panic:
		if g.ctr == nil || !g.ctr.MayPanic {
			g.addOb("panic", fmt.Sprintf("panic@%d", g.w.prog.Fset.Position(g.curPos).Line), g.curPos, st, "false")
		}
	default:
		g.note("unsupported %T", in)
		if val, ok := in.(ssa.Value); ok {
			g.vals[val] = w.freshTyped("uk", val.Type())
		}
	}
}

// nilFieldObs: field accesses through a pointer value generate a nil-dereference obligation (GOVC_NILFIELD=0 switches it off).
var nilFieldObs = os.Getenv("GOVC_NILFIELD") != "0"

// sweepNil: nil-dereference obligations are also generated for functions without a contract (set per unit).
var sweepNil = false

// assumeNonNilParams (unit attribute nonnil_params=on): a function WITHOUT a contract assumes its pointer-typed
// parameters and receiver non-nil at entry; in exchange every call from a function of the unit to a function of the
// repository that has no contract must pass non-nil pointers (obligation `arg_nonnil`), so the assumption is checked
// modularly inside the unit. A function that is legitimately called with nil needs an explicit contract.
var assumeNonNilParams = false

func (g *Gen) addNilOb(p ssa.Value, st *State, pos token.Pos) {
	if g.ctr == nil && !sweepNil {
		return
	}
	switch p.(type) {
	case *ssa.Parameter, *ssa.UnOp, *ssa.Call, *ssa.Extract, *ssa.Phi, *ssa.TypeAssert, *ssa.Lookup:
	default:
		return // addresses computed from other pointers (field/element addresses, locals, globals) are never nil themselves
	}
	if !nilFieldObs {
		if _, isParam := p.(*ssa.Parameter); !isParam {
			if _, isLoad := p.(*ssa.UnOp); !isLoad {
				return
			}
		}
	}
	t := g.val(p, st)
	g.addOb("nil", fmt.Sprintf("nonnil@%d", g.w.prog.Fset.Position(pos).Line), pos, st, fmt.Sprintf("(not (= %s 0))", t.S))
}

func (g *Gen) convert(v *ssa.Convert, st *State) Term {
	w := g.w
	x := g.val(v.X, st)
	ft, tt := v.X.Type(), v.Type()
	switch {
	case isInt(ft) && isInt(tt):
		// wrap to target width
		bits := intBits(tt)
		if isUnsigned(tt) {
			return T(fmt.Sprintf("(mod %s %s)", x.S, pow2(bits)), "Int")
		}
		// signed target: identity if source range fits, else modelled by fresh with in-range equality
		fb := intBits(ft)
		if fb < bits || (fb == bits && !isUnsigned(ft)) {
			return x
		}
		r := w.freshTyped("cv", tt)
		lo, hi, _ := intRange(tt)
		w.assume(fmt.Sprintf("(=> (and (<= %s %s) (<= %s %s)) (= %s %s))", lo, x.S, x.S, hi, r.S, x.S))
		return r
	case isInt(ft) && isString(tt):
		return w.chr(x)
	case isString(ft) && isSlice(tt), isSlice(ft) && isString(tt):
		r := w.freshTyped("cvs", tt)
		if isString(tt) {
			w.assume(fmt.Sprintf("(= (strlen %s) (slen %s))", r.S, x.S))
		} else {
			w.assume(fmt.Sprintf("(= (slen %s) (strlen %s))", r.S, x.S))
		}
		return r
	}
	if w.sortOf(ft) == w.sortOf(tt) {
		return x
	}
	return w.freshTyped("cvx", tt)
}

func (g *Gen) binop(v *ssa.BinOp, st *State) Term {
	w := g.w
	x, y := g.val(v.X, st), g.val(v.Y, st)
	xt := v.X.Type()
	arith := func(op string) Term {
		raw := fmt.Sprintf("(%s %s %s)", op, x.S, y.S)
		if g.ctr != nil && g.ctr.Overflow && isInt(v.Type()) && !isUnsigned(v.Type()) {
			lo, hi, _ := intRange(v.Type())
			g.addOb("overflow", fmt.Sprintf("no_overflow@%d", g.w.prog.Fset.Position(v.Pos()).Line), v.Pos(), st, fmt.Sprintf("(and (<= %s %s) (<= %s %s))", lo, raw, raw, hi))
		}
		return T(g.wrap(raw, v.Type()), "Int")
	}
	cmp := func(op string) Term { return T(fmt.Sprintf("(%s %s %s)", op, x.S, y.S), "Bool") }
	switch v.Op {
	case token.ADD:
		if isString(xt) {
			return T(fmt.Sprintf("(scat %s %s)", x.S, y.S), "Str")
		}
		if isInt(xt) {
			return arith("+")
		}
	case token.SUB:
		if isInt(xt) {
			return arith("-")
		}
	case token.MUL:
		if isInt(xt) {
			_, cx := v.X.(*ssa.Const)
			_, cy := v.Y.(*ssa.Const)
			if cx || cy {
				return arith("*")
			}
		}
	case token.QUO, token.REM:
		if isInt(xt) {
			g.addOb("div", fmt.Sprintf("div@%d", g.w.prog.Fset.Position(v.Pos()).Line), v.Pos(), st, fmt.Sprintf("(not (= %s 0))", y.S))
			r := w.freshTyped("dv", v.Type())
			op := "div"
			if v.Op == token.REM {
				op = "mod"
			}
			// Go truncated division agrees with SMT div/mod for x >= 0, y > 0
			w.assume(fmt.Sprintf("(=> (and (>= %s 0) (> %s 0)) (= %s (%s %s %s)))", x.S, y.S, r.S, op, x.S, y.S))
			return r
		}
	case token.EQL, token.NEQ:
		var e Term
		if cy, ok := v.Y.(*ssa.Const); ok && isString(xt) && cy.Value != nil {
			e = T(w.strEqLit(x, constant.StringVal(cy.Value)), "Bool")
		} else if cx, ok := v.X.(*ssa.Const); ok && isString(xt) && cx.Value != nil {
			e = T(w.strEqLit(y, constant.StringVal(cx.Value)), "Bool")
		} else if x.Sort == y.Sort {
			e = T(fmt.Sprintf("(= %s %s)", x.S, y.S), "Bool")
		} else {
			e = w.fresh("eq", "Bool")
		}
		if v.Op == token.NEQ {
			e = T(fmt.Sprintf("(not %s)", e.S), "Bool")
		}
		return e
	case token.LSS:
		if isInt(xt) {
			return cmp("<")
		}
	case token.LEQ:
		if isInt(xt) {
			return cmp("<=")
		}
	case token.GTR:
		if isInt(xt) {
			return cmp(">")
		}
	case token.GEQ:
		if isInt(xt) {
			return cmp(">=")
		}
	}
	// bit operations lowered to arithmetic where a constant operand makes that exact (no BV/Int bridge)
	if isInt(xt) {
		cval := func(val ssa.Value) (int64, bool) {
			if c, ok := val.(*ssa.Const); ok && c.Value != nil && c.Value.Kind() == constant.Int {
				if i, ok := constant.Int64Val(c.Value); ok {
					return i, true
				}
			}
			return 0, false
		}
		isPow2m1 := func(m int64) (int, bool) {
			for k := 1; k < 62; k++ {
				if m == (int64(1)<<uint(k))-1 {
					return k, true
				}
			}
			return 0, false
		}
		switch v.Op {
		case token.SHL:
			if c, ok := cval(v.Y); ok && c >= 0 && c < 62 {
				return T(g.wrap(fmt.Sprintf("(* %s %d)", x.S, int64(1)<<uint(c)), v.Type()), "Int")
			}
		case token.SHR:
			if c, ok := cval(v.Y); ok && c >= 0 && c < 62 {
				r := w.freshTyped("shr", v.Type())
				w.assume(fmt.Sprintf("(=> (>= %s 0) (= %s (div %s %d)))", x.S, r.S, x.S, int64(1)<<uint(c)))
				return r
			}
		case token.AND:
			for _, pr := range [][2]ssa.Value{{v.X, v.Y}, {v.Y, v.X}} {
				if m, ok := cval(pr[1]); ok {
					if k, ok := isPow2m1(m); ok {
						// two's complement: t & (2^k-1) == t mod 2^k (mathematical mod), also for negative t
						return T(fmt.Sprintf("(mod %s %d)", g.val(pr[0], st).S, int64(1)<<uint(k)), "Int")
					}
				}
			}
		case token.OR:
			// (a << c) | b with b < 2^c, or a | 2^k with a < 2^k: disjoint bits, hence a sum
			r := w.freshTyped("or", v.Type())
			for _, pr := range [][2]ssa.Value{{v.X, v.Y}, {v.Y, v.X}} {
				a, b := g.val(pr[0], st), g.val(pr[1], st)
				if sh, ok := pr[0].(*ssa.BinOp); ok && sh.Op == token.SHL {
					if c, ok := cval(sh.Y); ok && c >= 0 && c < 62 {
						w.assume(fmt.Sprintf("(=> (and (<= 0 %s) (< %s %d) (>= %s 0)) (= %s (+ %s %s)))", b.S, b.S, int64(1)<<uint(c), a.S, r.S, a.S, b.S))
					}
				}
				if c, ok := cval(pr[1]); ok && c > 0 && c&(c-1) == 0 {
					w.assume(fmt.Sprintf("(=> (and (<= 0 %s) (< %s %d)) (= %s (+ %s %d)))", a.S, a.S, c, r.S, a.S, c))
				}
			}
			w.assume(fmt.Sprintf("(=> (and (>= %s 0) (>= %s 0)) (and (>= %s %s) (>= %s %s) (<= %s (+ %s %s))))", x.S, y.S, r.S, x.S, r.S, y.S, r.S, x.S, y.S))
			return r
		}
	}
	g.note("binop %s on %s abstracted", v.Op, xt)
	return w.freshTyped("bo", v.Type())
}

// ---------- calls ----------

func (g *Gen) lookupContract(f *ssa.Function) *Contract {
	if f == nil {
		return nil
	}
	if c, ok := g.all[f.String()]; ok {
		usedContracts[c.Func] = true
		return c
	}
	if f.Pkg == nil {
		return nil
	}
	// short form: (*T).M or F - only for functions of the package under verification (a contract `func (*Server).Serve`
	// of this package must not be applied to net/http's method of the same relative name)
	if g.f != nil && g.f.Pkg != nil && f.Pkg != g.f.Pkg {
		return nil
	}
	short := f.RelString(f.Pkg.Pkg)
	if c, ok := g.all[short]; ok {
		usedContracts[c.Func] = true
		return c
	}
	return nil
}

// markAtCall records that an `at call <k> …` clause met a call site; clauses that meet none are specification errors
// (reported by checkAtCallUsed): a renamed or removed callee must not make an obligation disappear.
func (g *Gen) markAtCall(k string) {
	if g.atCallUsed == nil {
		g.atCallUsed = map[string]bool{}
	}
	g.atCallUsed[k] = true
}

func (g *Gen) checkAtCallUsed() {
	if g.ctr == nil {
		return
	}
	seen := map[string]bool{}
	for k := range g.ctr.AtCall {
		seen[k] = true
	}
	for k := range g.ctr.AtCallDo {
		seen[k] = true
	}
	for k := range g.ctr.AtCallBefore {
		seen[k] = true
	}
	var ks []string
	for k := range seen {
		if !g.atCallUsed[k] {
			ks = append(ks, k)
		}
	}
	sort.Strings(ks)
	for _, k := range ks {
		g.note("spec error: `at call %s` matches no call site of this function", k)
	}
}

// usedContracts records every contract entry that was looked up successfully; entries never used are reported.
var usedContracts = map[string]bool{}

func (g *Gen) call(c *ssa.CallCommon, res ssa.Value, st *State, pos token.Pos) {
	if g.ctr != nil && g.ctr.AtCallBefore != nil {
		name := calleeName(c)
		ord := g.callOrdinal(c, name)
		short := name
		if f, ok := c.Value.(*ssa.Function); ok && f.Pkg != nil && f.Pkg == g.f.Pkg {
			short = f.RelString(f.Pkg.Pkg)
		}
		keys := []string{name, fmt.Sprintf("%s#%d", name, ord)}
		if short != name {
			keys = append(keys, short, fmt.Sprintf("%s#%d", short, ord))
		}
		for _, k := range keys {
			for _, h := range g.ctr.AtCallBefore[k] {
				g.markAtCall(k)
				env := &SpecEnv{g: g, st: st, old: g.entry, fn: g.f, argOverride: map[string]Term{}, bound: map[string]Term{}, boundTypes: map[string]types.Type{}, evalBlock: g.curBlock, role: roleAssert}
				for i, a := range c.Args {
					env.bound[fmt.Sprintf("arg%d", i)] = g.val(a, st)
					env.boundTypes[fmt.Sprintf("arg%d", i)] = a.Type()
				}
				if !c.IsInvoke() {
					if _, isFn := c.Value.(*ssa.Function); !isFn {
						// a call through a function VALUE: `callee` names that value
						env.bound["callee"] = g.val(c.Value, st)
						env.boundTypes["callee"] = c.Value.Type()
					}
				}
				if h.Cover {
					env.role = roleAssume
				}
				t, err := env.evalBool(h.Expr)
				if err != nil {
					g.note("spec error in before-clause [%s]: %v", h.Label, err)
					continue
				}
				if h.Cover {
					// reachability requirement: "not e" must NOT be provable here (a dead path or a guard that excludes e fails it)
					g.addObNoAssume("cover", "reached_with["+h.Label+"]", pos, st, fmt.Sprintf("(not %s)", t.S))
					continue
				}
				g.addOb("before", h.Label, pos, st, t.S)
			}
		}
	}
	if g.ctr != nil && g.ctr.CallbacksReady {
		// a contracted, parameterless function literal handed to the callee as a callback: what it requires must hold when
		// it is handed over (the callee may run it at once); its effects go to a scratch state
		for _, a := range c.Args {
			if mc, ok := a.(*ssa.MakeClosure); ok {
				if fn, ok := mc.Fn.(*ssa.Function); ok && len(fn.Params) == 0 {
					g.callLiteralByContract(mc, nil, nil, st.clone(), pos)
				}
			}
		}
	}
	g.call0(c, res, st, pos)
	// proof hints attached to this call site
	if g.ctr == nil || (g.ctr.AtCall == nil && g.ctr.AtCallDo == nil) {
		return
	}
	name := calleeName(c)
	if g.callCount == nil {
		g.callCount = map[string]int{}
	}
	g.callCount[name] = g.callOrdinal(c, name)
	short := name
	if f, ok := c.Value.(*ssa.Function); ok && f.Pkg != nil && f.Pkg == g.f.Pkg {
		short = f.RelString(f.Pkg.Pkg)
	}
	var hints []Clause
	keys := []string{name, fmt.Sprintf("%s#%d", name, g.callCount[name])}
	if short != name {
		keys = append(keys, short, fmt.Sprintf("%s#%d", short, g.callCount[name]))
	}
	for _, k := range keys {
		hints = append(hints, g.ctr.AtCall[k]...)
		if len(g.ctr.AtCall[k]) > 0 {
			g.markAtCall(k)
		}
	}
	var dos []GhostSet
	for _, k := range keys {
		dos = append(dos, g.ctr.AtCallDo[k]...)
		if len(g.ctr.AtCallDo[k]) > 0 {
			g.markAtCall(k)
		}
	}
	if hints == nil && dos == nil {
		return
	}
	rv := T("0", "Int")
	var rvT types.Type = types.Typ[types.Int]
	if res != nil {
		if v, ok := g.vals[res]; ok {
			rv, rvT = v, res.Type()
		}
	}
	defer func() {
		for _, d := range dos {
			env := &SpecEnv{g: g, st: st, old: g.entry, fn: g.f, argOverride: map[string]Term{}, bound: map[string]Term{}, evalBlock: g.curBlock}
			if res != nil {
				if tup, ok := res.Type().(*types.Tuple); ok {
					for i := 0; i < tup.Len(); i++ {
						env.results = append(env.results, g.tupleElem(res, i, tup.At(i).Type()))
					}
					env.ifaceSig = types.NewSignatureType(nil, nil, nil, nil, tup, false)
				} else if v, ok := g.vals[res]; ok {
					// single result: `result` is the value the call produced
					env.results = append(env.results, v)
					env.ifaceSig = types.NewSignatureType(nil, nil, nil, nil, types.NewTuple(types.NewVar(token.NoPos, nil, "", res.Type())), false)
				}
			}
			v, err := env.eval(d.Expr)
			if err != nil {
				g.note("spec error in ghost assignment %s: %v", d.Name, err)
				continue
			}
			idx := "0"
			if d.Arg != nil {
				av, err := env.eval(d.Arg)
				if err != nil {
					g.note("spec error in ghost assignment %s: %v", d.Name, err)
					continue
				}
				idx = av.T.S
			}
			arr := g.w.heapArr(st, "ghost:"+d.Name, "Int")
			st.heap["ghost:"+d.Name] = T(fmt.Sprintf("(store %s %s %s)", arr.S, idx, v.T.S), arr.Sort)
		}
	}()
	for _, h := range hints {
		env := &SpecEnv{g: g, st: st, old: g.entry, fn: g.f, argOverride: map[string]Term{}, bound: map[string]Term{}, boundTypes: map[string]types.Type{}, evalBlock: g.curBlock, hintResult: &SV{rv, rvT}, role: roleAssert}
		// arg0, arg1, …: the actual arguments of this call (the state is the one after the call; arguments are values)
		for i, a := range c.Args {
			env.bound[fmt.Sprintf("arg%d", i)] = g.val(a, st)
			env.boundTypes[fmt.Sprintf("arg%d", i)] = a.Type()
		}
		t, err := env.evalBool(h.Expr)
		if err != nil {
			g.note("spec error in hint [%s]: %v", h.Label, err)
			continue
		}
		g.addOb("hint", h.Label, pos, st, t.S)
	}
}

// callOrdinal: 1-based index of this call among the calls to the same callee, in source order.
// fieldStoreClauses: `at call fieldstore:T.f before [label] e` states an obligation on every store into field f of a
// struct of (named) type T made by this function; arg0 is the object the field belongs to (its address), arg1 the value
// about to be stored. ("this function only ever SETS Config.Manual")
func (g *Gen) fieldStoreClauses(v *ssa.Store, st *State) {
	if g.ctr == nil || (g.ctr.AtCallBefore == nil && g.ctr.AtCallDo == nil) {
		return
	}
	fa, ok := v.Addr.(*ssa.FieldAddr)
	if !ok {
		return
	}
	pt, ok := fa.X.Type().Underlying().(*types.Pointer)
	if !ok {
		return
	}
	named, ok := pt.Elem().(*types.Named)
	if !ok {
		return
	}
	stt, ok := named.Underlying().(*types.Struct)
	if !ok {
		return
	}
	k := "fieldstore:" + named.Obj().Name() + "." + stt.Field(fa.Field).Name()
	for _, h := range g.ctr.AtCallBefore[k] {
		g.markAtCall(k)
		env := &SpecEnv{g: g, st: st, old: g.entry, fn: g.f, argOverride: map[string]Term{}, bound: map[string]Term{}, boundTypes: map[string]types.Type{}, evalBlock: g.curBlock, role: roleAssert}
		env.bound["arg0"], env.boundTypes["arg0"] = g.val(fa.X, st), fa.X.Type()
		env.bound["arg1"], env.boundTypes["arg1"] = g.val(v.Val, st), v.Val.Type()
		t, err := env.evalBool(h.Expr)
		if err != nil {
			g.note("spec error in before-clause [%s]: %v", h.Label, err)
			continue
		}
		g.addOb("before", h.Label, v.Pos(), st, t.S)
	}
	// `at call fieldstore:T.f do ghost = e`: the ghost assignment happens with the store (arg0, arg1 as above)
	for _, d := range g.ctr.AtCallDo[k] {
		g.markAtCall(k)
		env := &SpecEnv{g: g, st: st, old: g.entry, fn: g.f, argOverride: map[string]Term{}, bound: map[string]Term{}, boundTypes: map[string]types.Type{}, evalBlock: g.curBlock}
		env.bound["arg0"], env.boundTypes["arg0"] = g.val(fa.X, st), fa.X.Type()
		env.bound["arg1"], env.boundTypes["arg1"] = g.val(v.Val, st), v.Val.Type()
		val, err := env.eval(d.Expr)
		if err != nil {
			g.note("spec error in ghost assignment %s: %v", d.Name, err)
			continue
		}
		idx := "0"
		if d.Arg != nil {
			av, err := env.eval(d.Arg)
			if err != nil {
				g.note("spec error in ghost assignment %s: %v", d.Name, err)
				continue
			}
			idx = av.T.S
		}
		arr := g.w.heapArr(st, "ghost:"+d.Name, "Int")
		st.heap["ghost:"+d.Name] = T(fmt.Sprintf("(store %s %s %s)", arr.S, idx, val.T.S), arr.Sort)
	}
}

// mapUpdateClauses: `at call mapupdate#n before [label] e` states an obligation on the n-th map store of the function (in
// source order), `mapupdate:KEY` on the store(s) under the constant string key KEY, `mapupdate:*#n` on the n-th store under a
// computed key; arg0 is the map, arg1 the key and arg2 the value about to be stored.
func (g *Gen) mapUpdateClauses(v *ssa.MapUpdate, st *State) {
	if g.ctr == nil || g.ctr.AtCallBefore == nil {
		return
	}
	var all []*ssa.MapUpdate
	for _, b := range g.f.Blocks {
		for _, in := range b.Instrs {
			if mu, ok := in.(*ssa.MapUpdate); ok {
				all = append(all, mu)
			}
		}
	}
	sort.SliceStable(all, func(i, j int) bool { return all[i].Pos() < all[j].Pos() })
	constKey := func(mu *ssa.MapUpdate) (string, bool) {
		k := mu.Key
		if mi, ok := k.(*ssa.MakeInterface); ok {
			k = mi.X
		}
		if c, ok := k.(*ssa.Const); ok && c.Value != nil && c.Value.Kind() == constant.String {
			return constant.StringVal(c.Value), true
		}
		return "", false
	}
	ord, vord, nv := 0, 0, 0
	for i, mu := range all {
		_, isC := constKey(mu)
		if !isC {
			nv++
		}
		if mu == v {
			ord = i + 1
			if !isC {
				vord = nv
			}
		}
	}
	keys := []string{"mapupdate", fmt.Sprintf("mapupdate#%d", ord)}
	if ck, ok := constKey(v); ok {
		keys = append(keys, "mapupdate:"+ck)
	} else {
		keys = append(keys, fmt.Sprintf("mapupdate:*#%d", vord))
	}
	for _, k := range keys {
		for _, h := range g.ctr.AtCallBefore[k] {
			g.markAtCall(k)
			env := &SpecEnv{g: g, st: st, old: g.entry, fn: g.f, argOverride: map[string]Term{}, bound: map[string]Term{}, boundTypes: map[string]types.Type{}, evalBlock: g.curBlock, role: roleAssert}
			for i, a := range []ssa.Value{v.Map, v.Key, v.Value} {
				env.bound[fmt.Sprintf("arg%d", i)] = g.val(a, st)
				env.boundTypes[fmt.Sprintf("arg%d", i)] = a.Type()
			}
			t, err := env.evalBool(h.Expr)
			if err != nil {
				g.note("spec error in before-clause [%s]: %v", h.Label, err)
				continue
			}
			g.addOb("before", h.Label, v.Pos(), st, t.S)
		}
	}
}

func (g *Gen) callOrdinal(c *ssa.CallCommon, name string) int {
	type cp struct {
		pos token.Pos
		cc  *ssa.CallCommon
	}
	var all []cp
	for _, b := range g.f.Blocks {
		for _, in := range b.Instrs {
			var cc *ssa.CallCommon
			switch v := in.(type) {
			case *ssa.Call:
				cc = &v.Call
			case *ssa.Defer:
				cc = &v.Call
			}
			if cc != nil && calleeName(cc) == name {
				all = append(all, cp{cc.Pos(), cc})
			}
		}
	}
	sort.Slice(all, func(i, j int) bool { return all[i].pos < all[j].pos })
	for i, x := range all {
		if x.cc == c {
			return i + 1
		}
	}
	return 0
}

func (g *Gen) call0(c *ssa.CallCommon, res ssa.Value, st *State, pos token.Pos) {
	w := g.w
	name := calleeName(c)
	args := c.Args
	av := func(i int) Term { return g.val(args[i], st) }
	setRes := func(t Term) {
		if res != nil {
			g.vals[res] = t
		}
	}
	if mc, ok := c.Value.(*ssa.MakeClosure); ok {
		if g.callLiteralByContract(mc, c.Args, res, st, pos) {
			return
		}
		g.inlineExec(mc, c.Args, st)
		return
	}
	// `f := func(...){...}; … f(x)`: a call through a local that is assigned exactly once, with a function literal that
	// has a contract, is a call of that literal (without a contract it stays a dynamic call, as before)
	if mc, fn := singleAssignedLiteral(c.Value); mc != nil {
		if g.callLiteralByContract(mc, c.Args, res, st, pos) {
			return
		}
	} else if fn != nil {
		// a literal without free variables is a plain function value
		if ctr := g.lookupContract(fn); ctr != nil {
			var ats []Term
			for i := range args {
				ats = append(ats, av(i))
			}
			g.callWithContract(fn, ctr, ats, res, st, pos)
			return
		}
	}
	if name == "sync/atomic.AddInt64" || name == "sync/atomic.AddInt32" {
		a := g.resolveAddr(args[0], st)
		cur := w.loadAddr(a, st, args[1].Type())
		nv := T(fmt.Sprintf("(+ %s %s)", cur.S, g.val(args[1], st).S), "Int")
		w.storeAddr(a, nv, st)
		setRes(nv)
		g.note("spec used: sync/atomic.Add*")
		return
	}
	if (name == "sync/atomic.StoreInt64" || name == "sync/atomic.StoreInt32") && g.all[name] == nil {
		// sequential reading of an atomic store: a write to the cell (so it counts for the function's frame)
		a := g.resolveAddr(args[0], st)
		if a.kind != "unknown" {
			w.storeAddr(a, g.val(args[1], st), st)
			g.note("spec used: sync/atomic.Store* writes the cell")
			return
		}
	}
	if (name == "sync/atomic.LoadInt64" || name == "sync/atomic.LoadInt32") && g.all[name] == nil {
		// sequential reading of an atomic load: the value of the cell (no contract given for it in the unit)
		a := g.resolveAddr(args[0], st)
		if a.kind != "unknown" {
			setRes(w.loadAddr(a, st, c.Signature().Results().At(0).Type()))
			g.note("spec used: sync/atomic.Load* reads the cell")
			return
		}
	}
	if callee, ok := c.Value.(*ssa.Function); ok {
		if ctr := g.lookupContract(callee); ctr != nil {
			var ats []Term
			for i := range args {
				ats = append(ats, av(i))
			}
			// f(a, b, c) on a pure variadic f: the application is over the listed elements (as a specification writes it),
			// not over the identity of the temporary array the compiler packs them into
			if ctr.Pure && len(ctr.Requires) == 0 && len(ctr.Ensures) == 0 && callee.Signature.Variadic() && len(args) > 0 {
				if sli, ok := args[len(args)-1].(*ssa.Slice); ok && sli.Low == nil && sli.High == nil {
					if al, ok := sli.X.(*ssa.Alloc); ok && g.arrBase != nil && g.arrBase[al].S != "" {
						at := al.Type().Underlying().(*types.Pointer).Elem().Underlying().(*types.Array)
						if at.Len() <= 8 {
							ats = ats[:len(ats)-1]
							for j := int64(0); j < at.Len(); j++ {
								a := Addr{kind: "elem", slice: g.arrBase[al], idx: T(fmt.Sprint(j), "Int"), typ: at.Elem()}
								ats = append(ats, w.loadAddr(a, st, at.Elem()))
							}
						}
					}
				}
			}
			g.callWithContract(callee, ctr, ats, res, st, pos)
			return
		}
	}
	switch name {
	case "builtin:recover":
		if g.symPanicking != nil && !g.panicking && g.inlining == 0 {
			// this function is a deferred recoverer verified on its own: recover() is non-nil exactly when it runs because of a panic
			r := w.fresh("recval", "Int")
			w.assume(fmt.Sprintf("(= (not (= %s 0)) %s)", r.S, g.symPanicking.S))
			setRes(r)
			return
		}
		if g.panicking {
			r := w.fresh("recval", "Int")
			w.assume(fmt.Sprintf("(not (= %s 0))", r.S))
			g.recovered = true
			setRes(r)
		} else {
			setRes(T("0", "Int"))
		}
		return
	case "builtin:len":
		setRes(T(g.sliceLen(args[0], st), "Int"))
		return
	case "builtin:cap":
		x := av(0)
		setRes(T(fmt.Sprintf("(scap %s)", x.S), "Int"))
		return
	case "builtin:append":
		x := av(0)
		sl := args[0].Type().Underlying().(*types.Slice)
		r := w.fresh("app", "Slice")
		key, arr := w.elemArr(st, sl.Elem())
		sel := w.selemFn(sl.Elem())
		nh := w.fresh("Eapp", arr.Sort)
		add := "1"
		spread := len(args) == 2 && (isSlice(args[1].Type()) || isString(args[1].Type())) && c.Signature().Variadic()
		if len(args) == 1 {
			add = "0"
		} else if spread && isSlice(args[1].Type()) {
			add = fmt.Sprintf("(slen %s)", av(1).S)
		} else if spread {
			add = fmt.Sprintf("(strlen %s)", av(1).S)
		}
		w.assume(fmt.Sprintf("(and (= (slen %s) (+ (slen %s) %s)) (>= (scap %s) (slen %s)) (= (soff %s) 0) (> (sbase %s) 0))", r.S, x.S, add, r.S, r.S, r.S, r.S))
		// fresh backing array (listed assumption): old contents copied, new elements appended, all other arrays untouched
		w.assume(fmt.Sprintf("(forall ((j Int)) (! (=> (and (<= 0 j) (< j (slen %s))) (= (%s %s %s j) (%s %s %s j))) :pattern ((%s %s %s j))))", x.S, sel, nh.S, r.S, sel, arr.S, x.S, sel, nh.S, r.S))
		w.assume(fmt.Sprintf("(forall ((s2 Slice) (j Int)) (! (=> (not (= (sbase s2) (sbase %s))) (= (%s %s s2 j) (%s %s s2 j))) :pattern ((%s %s s2 j))))", r.S, sel, nh.S, sel, arr.S, sel, nh.S))
		g.freshBase(fmt.Sprintf("(sbase %s)", r.S)) // fresh w.r.t. every slice value seen so far in this function
		if len(args) == 2 && !spread {
			w.assume(fmt.Sprintf("(= (%s %s %s (slen %s)) %s)", sel, nh.S, r.S, x.S, av(1).S))
		} else if spread && isSlice(args[1].Type()) {
			y := av(1)
			w.assume(fmt.Sprintf("(forall ((j Int)) (! (=> (and (<= 0 j) (< j (slen %s))) (= (%s %s %s (+ (slen %s) j)) (%s %s %s j))) :pattern ((%s %s %s j))))", y.S, sel, nh.S, r.S, x.S, sel, arr.S, y.S, sel, arr.S, y.S))
			// the same fact keyed on the RESULT's element (so that a goal about result[j] finds it); only for a real
			// `append(a, b...)`: the varargs temporary of `append(a, x)` gets ground facts below
			isTemp := false
			if sli, ok := args[1].(*ssa.Slice); ok {
				_, isTemp = sli.X.(*ssa.Alloc)
			}
			if !isTemp {
				w.assume(fmt.Sprintf("(forall ((j Int)) (! (=> (and (<= (slen %s) j) (< j (slen %s))) (= (%s %s %s j) (%s %s %s (- j (slen %s))))) :pattern ((%s %s %s j))))", x.S, r.S, sel, nh.S, r.S, sel, arr.S, y.S, x.S, sel, nh.S, r.S))
			}
			// varargs temporaries have a small static length: state the copied elements as ground facts too
			if sli, ok := args[1].(*ssa.Slice); ok {
				if al, ok := sli.X.(*ssa.Alloc); ok {
					if at, ok := al.Type().Underlying().(*types.Pointer).Elem().Underlying().(*types.Array); ok && at.Len() <= 8 {
						for j := int64(0); j < at.Len(); j++ {
							w.assume(fmt.Sprintf("(=> (< %d (slen %s)) (= (%s %s %s (+ (slen %s) %d)) (%s %s %s %d)))", j, y.S, sel, nh.S, r.S, x.S, j, sel, arr.S, y.S, j))
						}
					}
				}
			}
		}
		st.heap[key] = nh
		g.note("append: fresh backing array (no in-place aliasing)")
		setRes(r)
		return
	case "builtin:copy":
		r := w.fresh("cp", "Int")
		w.assume(fmt.Sprintf("(and (>= %s 0) (<= %s %s) (<= %s %s))", r.S, r.S, g.sliceLen(args[0], st), r.S, g.sliceLen(args[1], st)))
		setRes(r)
		return
	case "math/rand.Int":
		r := w.freshTyped("rnd", types.Typ[types.Int])
		w.assume(fmt.Sprintf("(>= %s 0)", r.S))
		setRes(r)
		return
	case "(*sync.Mutex).Lock", "(*sync.Mutex).Unlock", "(*sync.RWMutex).RLock", "(*sync.RWMutex).RUnlock", "(*sync.RWMutex).Lock", "(*sync.RWMutex).Unlock":
		// ghost held(m): assumed spec  Lock: held++  Unlock: requires held>=1; held--
		m := g.mutexRef(args[0], st)
		arr := w.heapArr(st, "ghost:held", "Int")
		cur := fmt.Sprintf("(select %s %s)", arr.S, m.S)
		if strings.HasSuffix(name, "nlock") {
			g.addOb("lock", fmt.Sprintf("unlock_of_held@%d", g.w.prog.Fset.Position(pos).Line), pos, st, fmt.Sprintf("(>= %s 1)", cur))
			st.heap["ghost:held"] = T(fmt.Sprintf("(store %s %s (- %s 1))", arr.S, m.S, cur), arr.Sort)
		} else {
			st.heap["ghost:held"] = T(fmt.Sprintf("(store %s %s (+ %s 1))", arr.S, m.S, cur), arr.Sort)
		}
		g.note("spec used: sync.Mutex Lock/Unlock ghost held")
		return
	}
	if c.IsInvoke() {
		if ctr, ok := g.all["invoke:"+c.Method.FullName()]; ok {
			usedContracts[ctr.Func] = true
			var ats []Term
			ats = append(ats, g.val(c.Value, st))
			for i := range args {
				ats = append(ats, av(i))
			}
			g.invokeWithContract(c, ctr, ats, res, st, pos)
			return
		}
	}
	if name == "dynamic" {
		if sig, ok := c.Value.Type().Underlying().(*types.Signature); ok && sig.Results().Len() == 1 {
			var ats []Term
			for i := range args {
				ats = append(ats, av(i))
			}
			setRes(g.dynApply(g.val(c.Value, st), sig, ats))
			return
		}
	}
	// io.Reader.Read-like invoke: 0 <= n <= len(p)
	if c.IsInvoke() && c.Method.Name() == "Read" && len(args) == 1 && isSlice(args[0].Type()) {
		n := g.tupleElem(res, 0, types.Typ[types.Int])
		w.assume(fmt.Sprintf("(and (<= 0 %s) (<= %s (slen %s)))", n.S, n.S, av(0).S))
		g.note("spec used: io.Reader.Read ensures 0 <= n <= len(p)")
		return
	}
	if assumeNonNilParams {
		if callee, ok := c.Value.(*ssa.Function); ok && callee.Blocks != nil && strings.Contains(name, "github.com/tmpim/casket") {
			for i, a := range args {
				if _, isPtr := a.Type().Underlying().(*types.Pointer); isPtr {
					if _, isAlloc := a.(*ssa.Alloc); isAlloc {
						continue
					}
					g.addOb("nil", fmt.Sprintf("call_%s@%d/arg%d_nonnil", callee.Name(), g.w.prog.Fset.Position(pos).Line, i), pos, st, fmt.Sprintf("(not (= %s 0))", av(i).S))
				}
			}
		}
	}
	impure := strings.HasPrefix(name, "invoke:") || name == "dynamic" || strings.Contains(name, "github.com/tmpim/casket")
	if !strings.HasPrefix(name, "builtin:") {
		g.havocPointees(args, st, "")
	}
	if impure && os.Getenv("GOVC_HAVOC_UNKNOWN") != "" {
		g.havocHeapAll(st, nil)
		g.note("unknown call %s: heap havocked", name)
	} else {
		g.note("unknown call %s: assumed frame-empty", name)
		// Under frame checking, a function WITH a contract may only call functions of this repository through a contract
		// (an empty `//@ func f` block states "frame-empty, promises nothing" explicitly): a callee that is edited to
		// write shared state (sort a shared slice in place, say) would otherwise stay invisible to its caller's frame.
		// Callees verified by this same unit without a contract (sweep) are exempt; that their effects are not seen
		// by callers inside the unit is a listed limit.
		if callee, ok := c.Value.(*ssa.Function); ok && os.Getenv("GOVC_FRAME") != "" && g.ctr != nil && g.inlining == 0 && callee.Pkg != nil && strings.HasPrefix(callee.Pkg.Pkg.Path(), "github.com/tmpim/casket") && !inUnit(callee) {
			g.addObNoAssume("frame", fmt.Sprintf("call_%s/callee_has_no_contract", callee.Name()), pos, st, "false")
		}
	}
	if res != nil {
		if _, isTuple := res.Type().(*types.Tuple); !isTuple {
			setRes(w.freshTyped("r", res.Type()))
		}
	}
}

// havocPointees: memory whose address is handed to a callee that may write through it gets an arbitrary value.
// Covers direct pointer arguments (address of a local, of a field, of an element) and the pointers stored into a
// varargs array that is passed as a slice (c.Args(&a, &b)). onlyType != "" restricts to pointees of that Go type.
func (g *Gen) havocPointees(args []ssa.Value, st *State, onlyType string) {
	var visit func(a ssa.Value, depth int)
	visit = func(a ssa.Value, depth int) {
		pt, ok := a.Type().Underlying().(*types.Pointer)
		if ok {
			if onlyType != "" && types.TypeString(pt.Elem(), nil) != onlyType {
				return
			}
			switch x := a.(type) {
			case *ssa.Alloc:
				if g.escaping[x] {
					g.w.storeAddr(g.resolveAddr(x, st), g.w.freshTyped("hv_"+x.Comment, pt.Elem()), st)
				}
			case *ssa.FieldAddr, *ssa.IndexAddr:
				if ad, ok := g.addrs[a]; ok && ad.kind != "unknown" {
					g.w.storeAddr(ad, g.w.freshTyped("hv", pt.Elem()), st)
				}
			}
			return
		}
		if sl, ok := a.(*ssa.Slice); ok && depth == 0 {
			if al, ok := sl.X.(*ssa.Alloc); ok {
				for _, r := range *al.Referrers() {
					if ia, ok := r.(*ssa.IndexAddr); ok {
						for _, r2 := range *ia.Referrers() {
							if s, ok := r2.(*ssa.Store); ok && s.Addr == ia {
								visit(s.Val, 1)
							}
						}
					}
				}
			}
		}
	}
	for _, a := range args {
		visit(a, 0)
	}
}

// mutexRef gives the identity of the mutex whose address is passed (global, field of object, or pointer value).
func (g *Gen) mutexRef(v ssa.Value, st *State) Term {
	a := g.resolveAddr(v, st)
	switch {
	case a.kind == "heap" && strings.HasPrefix(a.key, "G:"):
		return g.w.globalID(a.key)
	case a.kind == "heap" && len(a.path) == 0:
		return a.ref
	case a.kind == "heap":
		return T(fmt.Sprintf("(+ (* %s 1000) %d)", a.ref.S, a.path[0]+1), "Int")
	}
	return g.val(v, st)
}

func (w *World) globalID(key string) Term {
	name := "gid_" + sanitize.ReplaceAllString(lastSeg(key), "_")
	if !w.pureDecl[name] {
		w.pureDecl[name] = true
		w.decls = append(w.decls, fmt.Sprintf("(declare-const %s Int)", name))
	}
	return T(name, "Int")
}

func (g *Gen) modKeys(ctr *Contract, callee *ssa.Function) map[string]bool {
	keys := map[string]bool{}
	for _, m := range ctr.Modifies {
		keys[m] = true
	}
	return keys
}

// checkFrameEntries: a modifies/reads entry that denotes no heap of the current state is a specification error
// (a misspelt entry would silently turn "havoc and assume ensures" into "assume ensures about the old heap").
func (g *Gen) checkFrameEntries(who string, entries []string, st *State) {
	for _, m := range entries {
		found := false
		for k := range st.heap {
			if heapKeyMatches(k, m) {
				found = true
				break
			}
		}
		if !found && strings.HasPrefix(m, "ptr:") {
			// the callee writes through pointers of that type; this function holds no such pointer: nothing of ours can change
			continue
		}
		if !found && os.Getenv("GOVC_FRAME") != "" && g.ctr != nil {
			// the callee writes a heap this function never touches (no value of that type occurs in it). Nothing this
			// function reads can change, but ITS callers may read that heap: the write is recorded and has to appear in this
			// function's own frame (checkFrame, obligation frame/unobserved:<entry>). A misspelt entry fails there too.
			if g.phantom == nil {
				g.phantom = map[string]bool{}
			}
			g.phantom[m] = true
			continue
		}
		if !found {
			g.note("spec error in %s: frame entry %q matches no heap", who, m)
		}
	}
}

func heapKeyMatches(key string, spec string) bool {
	if strings.HasPrefix(spec, "E:") || strings.HasPrefix(spec, "MV:") || strings.HasPrefix(spec, "MD:") || strings.HasPrefix(spec, "ghost:") || strings.HasPrefix(spec, "ptr:") || strings.HasPrefix(spec, "G:") {
		return key == spec
	}
	// spec like "UpstreamHost.Conns" or "maxBytesReader.n": struct-name.field -> resolved lazily by suffix of type name; obj: keys hold whole structs
	parts := strings.SplitN(spec, ".", 2)
	if ts, i, ok := fldParts(key); ok {
		if !(strings.HasSuffix(ts, "."+parts[0]) || ts == parts[0]) {
			// "T" without a field also names the by-value struct fields inside T (they live in heaps of their own type,
			// which may be anonymous: staticUpstream.HealthCheck)
			return len(parts) == 1 && interiorOf(ts, parts[0], 0)
		}
		if len(parts) == 1 {
			return true
		}
		stt := structRegistry[ts]
		return stt != nil && i < stt.NumFields() && stt.Field(i).Name() == parts[1]
	}
	return strings.HasPrefix(key, "obj:") && strings.HasSuffix(strings.TrimPrefix(key, "obj:"), "."+parts[0]) || strings.HasPrefix(key, "obj:") && strings.TrimPrefix(key, "obj:") == parts[0]
}

func (g *Gen) callWithContract(callee *ssa.Function, ctr *Contract, args []Term, res ssa.Value, st *State, pos token.Pos) {
	w := g.w
	line := g.w.prog.Fset.Position(pos).Line
	env := &SpecEnv{g: g, st: st, old: st, fn: callee, argOverride: map[string]Term{}, bound: map[string]Term{}, role: roleAssert}
	for i, n := range paramNames(callee) {
		if i < len(args) {
			env.argOverride[n] = args[i]
		}
	}
	// requires at call site
	for _, r := range ctr.Requires {
		t, err := env.evalBool(r.Expr)
		if err != nil {
			g.note("spec error in %s requires: %v", callee.Name(), err)
			continue
		}
		g.addOb("pre", fmt.Sprintf("call_%s@%d/%s", callee.Name(), line, r.Label), pos, st, t.S)
	}
	if callee == g.f && g.inlining == 0 {
		// direct recursion: the declared variant is non-negative on entry and strictly smaller for this call
		if ctr.Decreases == nil {
			g.addOb("variant", fmt.Sprintf("recursive_call_%s@%d/no_decreases_clause", callee.Name(), line), pos, st, "false")
		} else {
			cur, err1 := env.eval(ctr.Decreases)
			entryEnv := &SpecEnv{g: g, st: g.entry, old: g.entry, fn: g.f, argOverride: map[string]Term{}, bound: map[string]Term{}, inOld: true}
			ent, err2 := entryEnv.eval(ctr.Decreases)
			if err1 != nil || err2 != nil {
				g.note("spec error in %s decreases: %v %v", callee.Name(), err1, err2)
			} else {
				g.addOb("variant", fmt.Sprintf("recursive_call_%s@%d/decreases", callee.Name(), line), pos, st, fmt.Sprintf("(and (>= %s 0) (< %s %s))", ent.T.S, cur.T.S, ent.T.S))
			}
		}
	}
	if ctr.Pure {
		if callee.Signature.Results().Len() > 1 {
			for i := 0; i < callee.Signature.Results().Len(); i++ {
				g.setTuple(res, i, g.applyPureIdx(callee, ctr, args, st, 0, i))
			}
			return
		}
		app := g.applyPure(callee, ctr, args, st, 0)
		if res != nil {
			g.vals[res] = app
		}
		return
	}
	pre := st.clone()
	g.checkFrameEntries(callee.Name(), ctr.Modifies, st)
	if ctr.MayPanic {
		g.panicEdge(pre, ctr, pos, callee.Name(), env)
	}
	if ctr.Recovers && g.panicking {
		g.recovered = true
	}
	// havoc modifies
	pointeeOnly := map[string]bool{}
	for _, m := range ctr.Modifies {
		if strings.HasPrefix(m, "ptr:") {
			g.havocPointees(callArgsOf(res), st, strings.TrimPrefix(m, "ptr:"))
			// `ptr:T` = "writes through the *T pointers it is handed". When every argument that can reach a *T is such a
			// pointer itself (or the varargs array of such pointers), exactly those cells were havocked above and every
			// other cell of that heap keeps its value; otherwise the whole heap is havocked.
			if g.onlyDirectPointers(callArgsOf(res), strings.TrimPrefix(m, "ptr:")) {
				pointeeOnly[m] = true
			}
		}
	}
	for k, a := range st.heap {
		for _, m := range ctr.Modifies {
			if heapKeyMatches(k, m) && !pointeeOnly[m] {
				st.heap[k] = w.fresh("Hm", a.Sort)
			}
		}
	}
	// results
	var results []Term
	sig := callee.Signature
	for i := 0; i < sig.Results().Len(); i++ {
		results = append(results, w.freshTyped("res", sig.Results().At(i).Type()))
	}
	if res != nil {
		if sig.Results().Len() == 1 {
			g.vals[res] = results[0]
		} else {
			for i, r := range results {
				g.setTuple(res, i, r)
			}
		}
	}
	env2 := &SpecEnv{g: g, st: st, old: pre, fn: callee, argOverride: env.argOverride, bound: map[string]Term{}, results: results, role: roleAssume}
	// frame condition for partially modified whole-struct heaps: unchanged fields stay (prototype: fields not named keep value)
	g.frameAxioms(ctr, pre, st)
	for _, e := range ctr.Ensures {
		t, err := env2.evalBool(e.Expr)
		if err != nil {
			g.note("spec error in %s ensures: %v", callee.Name(), err)
			continue
		}
		w.assume(fmt.Sprintf("(=> %s %s)", st.pc, t.S))
	}
	if inUnit(callee) && callee.Blocks != nil && (len(stateInvariants) > 0 || len(globalInvariants) > 0) {
		// the callee is verified in this unit: it re-establishes the unit's invariants at every exit
		g.assumeUnitInvariants(st, g.f)
	}
}

// assumeUnitInvariants states the unit's invariants (object invariants with binders, invariants over package state) in
// state st: at the entry of every function of the unit, and again after a call to a function of the unit (which proves
// them at its exits).
func (g *Gen) assumeUnitInvariants(st *State, f *ssa.Function) {
	w := g.w
	for _, si := range stateInvariants {
		env := &SpecEnv{g: g, st: st, old: st, fn: f, argOverride: map[string]Term{}, bound: map[string]Term{}, boundTypes: map[string]types.Type{}}
		saved := w.binders
		ok := true
		for _, b := range si.Binders {
			bt, err := env.resolveType(b.Typ)
			if err != nil {
				g.note("spec error in invariant binder: %v", err)
				ok = false
				break
			}
			w.n++
			name := fmt.Sprintf("%s_inv%d", b.Name, w.n)
			env.bound[b.Name] = T(name, w.sortOf(bt))
			env.boundTypes[b.Name] = bt
			w.binders = append(w.binders, binderT{name, w.sortOf(bt)})
		}
		if ok {
			if t, err := env.evalBool(si.Expr); err == nil {
				w.assume(t.S)
			} else {
				g.note("spec error in invariant: %v", err)
			}
		}
		w.binders = saved
	}
	for _, gi := range globalInvariants {
		env := &SpecEnv{g: g, st: st, old: st, fn: f, argOverride: map[string]Term{}, bound: map[string]Term{}}
		if t, err := env.evalBool(gi.Expr); err == nil {
			w.assume(t.S)
		} else {
			g.note("spec error in global invariant: %v", err)
		}
	}
}

// applyPureIface is the UF application for a pure interface method.
func (g *Gen) applyPureIface(m *types.Func, ctr *Contract, args []Term, st *State) Term {
	w := g.w
	var heapKeys []string
	for k := range st.heap {
		for _, r := range ctr.Reads {
			if heapKeyMatches(k, r) {
				heapKeys = append(heapKeys, k)
				break
			}
		}
	}
	sort.Strings(heapKeys)
	var actuals, sorts []string
	for _, k := range heapKeys {
		actuals = append(actuals, st.heap[k].S)
		sorts = append(sorts, st.heap[k].Sort)
	}
	for _, a := range args {
		actuals = append(actuals, a.S)
		sorts = append(sorts, a.Sort)
	}
	sig := m.Type().(*types.Signature)
	resSort := w.sortOf(sig.Results().At(0).Type())
	name := "ipf_" + sanitize.ReplaceAllString(m.FullName(), "_") + fmt.Sprintf("_%d", len(sorts))
	if !w.pureDecl[name] {
		w.pureDecl[name] = true
		w.decls = append(w.decls, fmt.Sprintf("(declare-fun %s (%s) %s)", name, strings.Join(sorts, " "), resSort))
	}
	app := T(fmt.Sprintf("(%s %s)", name, strings.Join(actuals, " ")), resSort)
	for _, f := range w.typeFacts(app, sig.Results().At(0).Type()) {
		w.assume(f)
	}
	return app
}

// runDefers executes the statically ordered deferred calls of this path (LIFO); literals are inlined.
func (g *Gen) runDefers(st *State) {
	ds := st.defers
	st.defers = nil
	for i := len(ds) - 1; i >= 0; i-- {
		d := ds[i]
		if mc, ok := d.Call.Value.(*ssa.MakeClosure); ok {
			if g.callLiteralByContract(mc, d.Call.Args, nil, st, d.Pos()) {
				continue
			}
			g.inlineExec(mc, d.Call.Args, st)
			continue
		}
		g.call(&d.Call, nil, st, d.Pos())
	}
}

// callLiteralByContract: a function literal that has its own contract (`Outer$n`) is used through it where it is called or
// deferred (needed for literals with loops, which cannot be inlined). Names of captured variables in its clauses denote
// the current contents of those variables in the caller.
func (g *Gen) callLiteralByContract(mc *ssa.MakeClosure, args []ssa.Value, res ssa.Value, st *State, pos token.Pos) bool {
	fn, ok := mc.Fn.(*ssa.Function)
	if !ok {
		return false
	}
	ctr := g.lookupContract(fn)
	if ctr == nil {
		return false
	}
	saved := g.fvBind
	g.fvBind = map[string]ssa.Value{}
	for i, fv := range fn.FreeVars {
		g.fvBind[fv.Name()] = mc.Bindings[i]
	}
	var ats []Term
	for _, a := range args {
		ats = append(ats, g.val(a, st))
	}
	g.callWithContract(fn, ctr, ats, res, st, pos)
	g.fvBind = saved
	return true
}

// inlineExec runs the body of a loop-free function literal in the caller's state (free variables = captured cells).
func (g *Gen) inlineExec(mc *ssa.MakeClosure, args []ssa.Value, st *State) {
	fn := mc.Fn.(*ssa.Function)
	if fn.Blocks == nil {
		return
	}
	for i, fv := range fn.FreeVars {
		g.addrs[fv] = g.resolveAddr(mc.Bindings[i], st)
		g.vals[fv] = g.val(mc.Bindings[i], st)
	}
	for i, p := range fn.Params {
		if i < len(args) {
			g.vals[p] = g.val(args[i], st)
		}
	}
	for _, b := range fn.Blocks {
		for _, s := range b.Succs {
			if s.Dominates(b) {
				g.note("function literal %s has a loop: not inlined (effects unmodelled)", fn.Name())
				return
			}
		}
	}
	g.inlining++
	g.outerDefers = append(g.outerDefers, append([]*ssa.Defer{}, st.defers...))
	defer func() { g.inlining--; g.outerDefers = g.outerDefers[:len(g.outerDefers)-1] }()
	// topological order
	var order []*ssa.BasicBlock
	seen := map[*ssa.BasicBlock]bool{}
	var dfs func(b *ssa.BasicBlock)
	dfs = func(b *ssa.BasicBlock) {
		seen[b] = true
		for _, s := range b.Succs {
			if !seen[s] {
				dfs(s)
			}
		}
		order = append(order, b)
	}
	dfs(fn.Blocks[0])
	for i, j := 0, len(order)-1; i < j; i, j = i+1, j-1 {
		order[i], order[j] = order[j], order[i]
	}
	outState := map[*ssa.BasicBlock]*State{}
	edgeCond := map[[2]*ssa.BasicBlock]string{}
	var finals []*ssa.BasicBlock
	savedBlock := g.curBlock
	for _, b := range order {
		var cur *State
		if b == fn.Blocks[0] {
			cur = st.clone()
			cur.defers = nil
		} else {
			var preds []*ssa.BasicBlock
			for _, p := range b.Preds {
				if outState[p] != nil {
					preds = append(preds, p)
				}
			}
			if len(preds) == 0 {
				continue
			}
			cur = g.mergePreds(b, preds, outState, edgeCond)
		}
		for _, in := range b.Instrs {
			g.instr(in, cur)
		}
		outState[b] = cur
		if iff, ok := b.Instrs[len(b.Instrs)-1].(*ssa.If); ok {
			c := g.val(iff.Cond, cur)
			edgeCond[[2]*ssa.BasicBlock{b, b.Succs[0]}] = c.S
			edgeCond[[2]*ssa.BasicBlock{b, b.Succs[1]}] = fmt.Sprintf("(not %s)", c.S)
		}
		if _, ok := b.Instrs[len(b.Instrs)-1].(*ssa.Return); ok {
			finals = append(finals, b)
		}
	}
	g.curBlock = savedBlock
	if len(finals) == 0 {
		return
	}
	// merge the final states back into st (a synthetic join)
	var m *State
	if len(finals) == 1 {
		m = outState[finals[0]]
	} else {
		join := &ssa.BasicBlock{}
		ec := map[[2]*ssa.BasicBlock]string{}
		m = g.mergePreds(join, finals, outState, ec)
	}
	defers := st.defers
	*st = *m
	st.defers = defers
}

// panicEdge: the callee may panic at this call; deferred calls run, a recover() turns the edge into a return.
func (g *Gen) panicEdge(pre *State, ctr *Contract, pos token.Pos, calleeName string, envT *SpecEnv) {
	w := g.w
	pst := pre.clone()
	pan := w.fresh("panics_"+calleeName, "Bool")
	pc := w.fresh("pc_panic", "Bool")
	w.assume(fmt.Sprintf("(= %s (and %s %s))", pc.S, pre.pc, pan.S))
	pst.pc = pc.S
	for k, a := range pst.heap {
		for _, m := range ctr.Modifies {
			if heapKeyMatches(k, m) {
				pst.heap[k] = w.fresh("Hp", a.Sort)
			}
		}
	}
	if envT != nil {
		// what the callee guarantees even when it panics (assumed for externs, proved for functions under contract)
		ce := *envT
		ce.st, ce.old, ce.bound = pst, pre, map[string]Term{}
		for _, e := range ctr.EnsuresOnPanic {
			t, err := ce.evalBool(e.Expr)
			if err != nil {
				g.note("spec error in callee ensures_on_panic: %v", err)
				continue
			}
			w.assume(fmt.Sprintf("(=> %s %s)", pst.pc, t.S))
		}
	}
	if ghostInts["panicked"] {
		arr := w.heapArr(pst, "ghost:panicked", "Int")
		pst.heap["ghost:panicked"] = T(fmt.Sprintf("(store %s 0 1)", arr.S), arr.Sort)
	}
	savedP, savedR := g.panicking, g.recovered
	g.panicking, g.recovered = true, false
	g.runDefers(pst)
	for i := len(g.outerDefers) - 1; i >= 0 && !g.recovered; i-- {
		pst.defers = append([]*ssa.Defer{}, g.outerDefers[i]...)
		saved := g.outerDefers
		g.outerDefers = g.outerDefers[:i]
		g.runDefers(pst)
		g.outerDefers = saved
	}
	recovered := g.recovered
	g.panicking, g.recovered = savedP, savedR
	line := g.w.prog.Fset.Position(pos).Line
	if g.ctr != nil && !g.staticDead[g.curBlock] && (recovered || len(g.ctr.EnsuresOnPanic) > 0) {
		// vacuity guard of the panic exit: "false" must not be provable where clauses about the panicking exit are checked
		g.addObNoAssume("cover", fmt.Sprintf("reachable_panic_exit@panic_in_%s_line%d", calleeName, line), pos, pst, "false")
	}
	if recovered {
		// control resumes in the Recover block: the function returns normally with its (named) results
		g.checkEnsuresOn(pst, pos, fmt.Sprintf("@panic_in_%s_line%d", calleeName, line))
		return
	}
	if g.ctr != nil && !g.ctr.MayPanic {
		g.addObNoAssume("panic", fmt.Sprintf("panic_escapes_from_%s@%d", calleeName, line), pos, pst, "false")
	}
	if g.ctr != nil {
		env := &SpecEnv{g: g, st: pst, old: g.entry, fn: g.f, argOverride: map[string]Term{}, bound: map[string]Term{}, role: roleAssert}
		for _, e := range g.ctr.EnsuresOnPanic {
			t, err := env.evalBool(e.Expr)
			if err != nil {
				g.note("spec error in ensures_on_panic [%s]: %v", e.Label, err)
				continue
			}
			g.addObNoAssume("post_panic", fmt.Sprintf("%s@panic_in_%s_line%d", e.Label, calleeName, line), pos, pst, t.S)
		}
	}
}

// invokeWithContract applies an interface-method contract at an invoke site.
func (g *Gen) invokeWithContract(c *ssa.CallCommon, ctr *Contract, args []Term, res ssa.Value, st *State, pos token.Pos) {
	w := g.w
	if ctr.Pure {
		if res != nil {
			g.vals[res] = g.applyPureIface(c.Method, ctr, args, st)
		}
		return
	}
	sig := c.Method.Type().(*types.Signature)
	names := []string{"self"}
	typs := []types.Type{c.Value.Type()}
	for i := 0; i < sig.Params().Len(); i++ {
		nm := sig.Params().At(i).Name()
		if nm == "" || nm == "_" {
			nm = fmt.Sprintf("arg%d", i) // unnamed interface parameters are addressed by position
		}
		names = append(names, nm)
		typs = append(typs, sig.Params().At(i).Type())
	}
	over := map[string]Term{}
	for i, n := range names {
		over[n] = args[i]
	}
	line := g.w.prog.Fset.Position(pos).Line
	env := &SpecEnv{g: g, st: st, old: st, fn: g.f, argOverride: over, bound: map[string]Term{}, extNames: names, extTypes: typs, role: roleAssert}
	for _, r := range ctr.Requires {
		t, err := env.evalBool(r.Expr)
		if err != nil {
			g.note("spec error in interface requires: %v", err)
			continue
		}
		g.addOb("pre", fmt.Sprintf("invoke_%s@%d/%s", c.Method.Name(), line, r.Label), pos, st, t.S)
	}
	pre := st.clone()
	g.checkFrameEntries(c.Method.Name(), ctr.Modifies, st)
	if ctr.MayPanic {
		g.panicEdge(pre, ctr, pos, c.Method.Name(), env)
	}
	for k, a := range st.heap {
		for _, m := range ctr.Modifies {
			if heapKeyMatches(k, m) {
				st.heap[k] = w.fresh("Hm", a.Sort)
			}
		}
	}
	var results []Term
	for i := 0; i < sig.Results().Len(); i++ {
		results = append(results, w.freshTyped("res", sig.Results().At(i).Type()))
	}
	if res != nil {
		if len(results) == 1 {
			g.vals[res] = results[0]
		} else {
			for i, r := range results {
				g.setTuple(res, i, r)
			}
		}
	}
	env2 := &SpecEnv{g: g, st: st, old: pre, fn: g.f, argOverride: over, bound: map[string]Term{}, extNames: names, extTypes: typs, results: results, ifaceSig: sig, role: roleAssume}
	for _, e := range ctr.Ensures {
		t, err := env2.evalBool(e.Expr)
		if err != nil {
			g.note("spec error in interface ensures: %v", err)
			continue
		}
		w.assume(fmt.Sprintf("(=> %s %s)", st.pc, t.S))
	}
}

func callArgsOf(res ssa.Value) []ssa.Value {
	if c, ok := res.(*ssa.Call); ok {
		return c.Call.Args
	}
	return nil
}

// frameAxioms: for each havocked obj heap, fields not listed in modifies are unchanged for all refs.
func (g *Gen) frameAxioms(ctr *Contract, pre, post *State) {
	w := g.w
	if fieldMode {
		return // per-field heaps: a callee havocs exactly the field arrays it names
	}
	for k, a := range post.heap {
		pa, ok := pre.heap[k]
		if !ok || pa.S == a.S || !strings.HasPrefix(k, "obj:") {
			continue
		}
		// find struct type by key via registry
		st := g.structByKey(k)
		if st == nil {
			continue
		}
		srt := g.w.structSorts[strings.TrimPrefix(k, "obj:")]
		modified := map[string]bool{}
		for _, m := range ctr.Modifies {
			if heapKeyMatches(k, m) {
				parts := strings.SplitN(m, ".", 2)
				if len(parts) == 2 {
					modified[parts[1]] = true
				}
			}
		}
		for i := 0; i < st.NumFields(); i++ {
			if modified[st.Field(i).Name()] {
				continue
			}
			w.assume(fmt.Sprintf("(forall ((r Int)) (! (= (%s_f%d (select %s r)) (%s_f%d (select %s r))) :pattern ((select %s r))))", srt, i, a.S, srt, i, pa.S, a.S))
		}
	}
}

var structRegistry = map[string]*types.Struct{}

func (g *Gen) structByKey(k string) *types.Struct {
	return structRegistry[strings.TrimPrefix(k, "obj:")]
}

func registerStruct(t types.Type) {
	if p, ok := t.Underlying().(*types.Pointer); ok {
		t = p.Elem()
	}
	if st, ok := t.Underlying().(*types.Struct); ok {
		structRegistry[types.TypeString(t, nil)] = st
	}
}

// paramNames lists receiver and parameter names, also for functions without a body (extern).
func paramNames(f *ssa.Function) []string {
	var out []string
	if len(f.Params) > 0 {
		for _, p := range f.Params {
			out = append(out, p.Name())
		}
		return out
	}
	sig := f.Signature
	if sig.Recv() != nil {
		out = append(out, sig.Recv().Name())
	}
	for i := 0; i < sig.Params().Len(); i++ {
		out = append(out, sig.Params().At(i).Name())
	}
	return out
}

func paramTypes(f *ssa.Function) []types.Type {
	var out []types.Type
	sig := f.Signature
	if sig.Recv() != nil {
		out = append(out, sig.Recv().Type())
	}
	for i := 0; i < sig.Params().Len(); i++ {
		out = append(out, sig.Params().At(i).Type())
	}
	return out
}

// applyPure builds the UF application for a pure function over its read frame and unfolds its ensures once.
func (g *Gen) applyPure(callee *ssa.Function, ctr *Contract, args []Term, st *State, depth int) Term {
	return g.applyPureIdx(callee, ctr, args, st, depth, 0)
}

// dynApply models a call through a func value as a deterministic application (listed assumption).
func (g *Gen) dynApply(fv Term, sig *types.Signature, args []Term) Term {
	w := g.w
	var sorts, as []string
	sorts = append(sorts, "Int")
	as = append(as, fv.S)
	for _, a := range args {
		sorts = append(sorts, a.Sort)
		as = append(as, a.S)
	}
	resSort := w.sortOf(sig.Results().At(0).Type())
	name := "dyn_" + sanitize.ReplaceAllString(strings.Join(sorts, "_")+"_"+resSort, "_")
	if !w.pureDecl[name] {
		w.pureDecl[name] = true
		w.decls = append(w.decls, fmt.Sprintf("(declare-fun %s (%s) %s)", name, strings.Join(sorts, " "), resSort))
	}
	g.note("dynamic call modelled as a pure application")
	return T(fmt.Sprintf("(%s %s)", name, strings.Join(as, " ")), resSort)
}

func (g *Gen) applyPureIdx(callee *ssa.Function, ctr *Contract, args []Term, st *State, depth int, resIdx int) Term {
	w := g.w
	pkgRel := callee.String()
	if callee.Pkg != nil {
		pkgRel = callee.RelString(callee.Pkg.Pkg)
	}
	name := "pf_" + sanitize.ReplaceAllString(pkgRel, "_") + fmt.Sprintf("_r%d", resIdx)
	// heap arguments: all obj heaps whose struct is named in reads
	var heapKeys []string
	for k := range st.heap {
		for _, r := range ctr.Reads {
			if heapKeyMatches(k, r) {
				heapKeys = append(heapKeys, k)
				break
			}
		}
	}
	// make sure receiver object heap exists when reads mention its type
	sort.Strings(heapKeys)
	var actuals, sorts []string
	for _, k := range heapKeys {
		actuals = append(actuals, st.heap[k].S)
		sorts = append(sorts, st.heap[k].Sort)
	}
	for _, a := range args {
		actuals = append(actuals, a.S)
		sorts = append(sorts, a.Sort)
	}
	resSort := w.sortOf(callee.Signature.Results().At(resIdx).Type())
	sigKey := name + "|" + strings.Join(sorts, ",")
	uf := name + fmt.Sprintf("_%d", len(sorts))
	if !w.pureDecl[sigKey] {
		w.pureDecl[sigKey] = true
		w.decls = append(w.decls, fmt.Sprintf("(declare-fun %s (%s) %s)", uf, strings.Join(sorts, " "), resSort))
	}
	app := T(fmt.Sprintf("(%s %s)", uf, strings.Join(actuals, " ")), resSort)
	if len(actuals) == 0 {
		app = T(uf, resSort)
	}
	for _, f := range w.typeFacts(app, callee.Signature.Results().At(resIdx).Type()) {
		w.assume(f)
	}
	if callee.Signature.Results().Len() > 1 {
		return app // multi-result pure functions: no unfolding in the prototype
	}
	if depth < 3 {
		env := &SpecEnv{g: g, st: st, old: st, fn: callee, argOverride: map[string]Term{}, bound: map[string]Term{}, results: []Term{app}, depth: depth + 1, role: roleAssume}
		for i, n := range paramNames(callee) {
			if i < len(args) {
				env.argOverride[n] = args[i]
			}
		}
		for _, e := range ctr.Ensures {
			t, err := env.evalBool(e.Expr)
			if err != nil {
				g.note("spec error unfolding %s: %v", callee.Name(), err)
				continue
			}
			// definitional unfolding: valid whenever requires holds; requires are obligations at code call sites
			w.assume(t.S)
		}
	}
	return app
}

// ---------- ensures at return ----------

func (g *Gen) checkEnsures(ret *ssa.Return, st *State) {
	if g.ctr != nil && !g.staticDead[g.curBlock] {
		cp := ret.Pos()
		if !cp.IsValid() {
			cp = g.curPos
		}
		g.addObNoAssume("cover", fmt.Sprintf("reachable_return@%d", g.w.prog.Fset.Position(cp).Line), cp, st, "false")
	}
	g.checkGlobalInvariants(ret, st)
	if g.ctr == nil {
		return
	}
	var results []Term
	for _, r := range ret.Results {
		results = append(results, g.val(r, st))
	}
	if os.Getenv("GOVC_FRAME") != "" {
		g.checkFrame(ret, st)
	}
	env := &SpecEnv{g: g, st: st, old: g.entry, fn: g.f, argOverride: map[string]Term{}, bound: map[string]Term{}, results: results, atReturn: true, role: roleAssert}
	for _, e := range g.ctr.Ensures {
		t, err := env.evalBool(e.Expr)
		if err != nil {
			g.note("spec error in ensures [%s]: %v", e.Label, err)
			continue
		}
		pos := ret.Pos()
		if !pos.IsValid() {
			pos = g.curPos
		}
		g.addObNoAssume("post", e.Label+g.retSuffix(ret), pos, st, t.S)
	}
}

// checkGlobalInvariants: a unit's `invariant` over package-level state is assumed at the entry of every function of the
// unit; a function of the unit that changed any heap must re-establish it at each return (exit obligation). Functions that
// leave every heap as it was get no obligation (it would repeat the assumption).
func (g *Gen) checkGlobalInvariants(ret *ssa.Return, st *State) {
	if (len(globalInvariants) == 0 && len(stateInvariants) == 0) || g.entry == nil || g.inlining != 0 {
		return
	}
	changed := false
	for k, h1 := range st.heap {
		if k == "alloc" {
			continue
		}
		if h0, had := g.entry.heap[k]; !had || h0.S != h1.S {
			changed = true
			break
		}
	}
	if !changed {
		return
	}
	pos := ret.Pos()
	if !pos.IsValid() {
		pos = g.curPos
	}
	env := &SpecEnv{g: g, st: st, old: g.entry, fn: g.f, argOverride: map[string]Term{}, bound: map[string]Term{}, role: roleAssert}
	for _, gi := range globalInvariants {
		t, err := env.evalBool(gi.Expr)
		if err != nil {
			continue // reported at entry
		}
		g.addObNoAssume("post", "invariant_kept["+gi.Label+"]"+g.retSuffix(ret), pos, st, t.S)
	}
	// invariants with binders (facts about every object of a type): proved at the exit for arbitrary values of the binders
	for k, si := range stateInvariants {
		env := &SpecEnv{g: g, st: st, old: g.entry, fn: g.f, argOverride: map[string]Term{}, bound: map[string]Term{}, boundTypes: map[string]types.Type{}, role: roleAssert}
		ok := true
		for _, b := range si.Binders {
			bt, err := env.resolveType(b.Typ)
			if err != nil {
				ok = false
				break
			}
			c := g.w.freshTyped("any_"+b.Name, bt)
			env.bound[b.Name] = c
			env.boundTypes[b.Name] = bt
		}
		if !ok {
			continue
		}
		t, err := env.evalBool(si.Expr)
		if err != nil {
			continue
		}
		g.addObNoAssume("post", fmt.Sprintf("invariant_kept[object_inv%d]%s", k+1, g.retSuffix(ret)), pos, st, t.S)
	}
}

// retSuffix distinguishes the postcondition obligations of different return statements (ordinal in source order).
func (g *Gen) retSuffix(ret *ssa.Return) string {
	var poss []token.Pos
	for _, b := range g.f.Blocks {
		if len(b.Instrs) == 0 {
			continue
		}
		if r, ok := b.Instrs[len(b.Instrs)-1].(*ssa.Return); ok {
			poss = append(poss, r.Pos())
		}
	}
	if len(poss) < 2 {
		return ""
	}
	sort.Slice(poss, func(i, j int) bool { return poss[i] < poss[j] })
	for i, p := range poss {
		if p == ret.Pos() {
			return fmt.Sprintf("@ret%d", i+1)
		}
	}
	return ""
}

// checkEnsuresOn checks the postconditions on a state reached through a recovered panic (results: zero values).
func (g *Gen) checkEnsuresOn(st *State, pos token.Pos, suffix string) {
	if g.ctr == nil {
		return
	}
	var results []Term
	res := g.f.Signature.Results()
	for i := 0; i < res.Len(); i++ {
		// a recovered panic returns the current values of NAMED results (a deferred function may have set them), zero values otherwise
		var cur *Term
		if nm := res.At(i).Name(); nm != "" && nm != "_" {
			for _, b := range g.f.Blocks {
				for _, in := range b.Instrs {
					if al, ok := in.(*ssa.Alloc); ok && al.Comment == nm && types.Identical(al.Type().Underlying().(*types.Pointer).Elem(), res.At(i).Type()) {
						v := g.w.loadAddr(g.resolveAddr(al, st), st, res.At(i).Type())
						cur = &v
					}
				}
			}
		}
		if cur != nil {
			results = append(results, *cur)
		} else {
			results = append(results, g.w.zero(res.At(i).Type()))
		}
	}
	env := &SpecEnv{g: g, st: st, old: g.entry, fn: g.f, argOverride: map[string]Term{}, bound: map[string]Term{}, results: results, atReturn: true, role: roleAssert}
	for _, e := range g.ctr.Ensures {
		t, err := env.evalBool(e.Expr)
		if err != nil {
			g.note("spec error in ensures [%s]: %v", e.Label, err)
			continue
		}
		g.addObNoAssume("post", e.Label+suffix, pos, st, t.S)
	}
}

// checkFrame: everything allocated at entry that the contract does not list under `modifies` is unchanged.
func (g *Gen) checkFrame(ret *ssa.Return, st *State) {
	w := g.w
	if g.ctr.Pure {
		// pure functions must not modify anything at all
	}
	pos := ret.Pos()
	if !pos.IsValid() {
		pos = g.curPos
	}
	// writes of callees to heaps this function never touches: they must be in this function's frame as well
	var ph []string
	for m := range g.phantom {
		ph = append(ph, m)
	}
	sort.Strings(ph)
	for _, m := range ph {
		covered := false
		for _, own := range g.ctr.Modifies {
			if own == m || (!strings.Contains(own, ":") && strings.HasPrefix(m, own+".")) {
				covered = true
			}
		}
		if !covered {
			g.addObNoAssume("frame", "frame/unobserved:"+m, pos, st, "false")
		}
	}
	alloc0, ok := g.entry.heap["alloc"]
	if !ok {
		return
	}
	var keys []string
	for k := range st.heap {
		keys = append(keys, k)
	}
	sort.Strings(keys)
	for _, k := range keys {
		h1 := st.heap[k]
		h0, had := g.entry.heap[k]
		if !had || h0.S == h1.S || k == "alloc" {
			continue
		}
		matched := false
		modFields := map[string]bool{}
		for _, m := range g.ctr.Modifies {
			if heapKeyMatches(k, m) {
				matched = true
				if parts := strings.SplitN(m, ".", 2); len(parts) == 2 && strings.HasPrefix(k, "obj:") {
					modFields[parts[1]] = true
				}
			}
		}
		name := "frame/" + lastSeg(k)
		if ts, i, ok := fldParts(k); ok {
			if matched {
				continue
			}
			if stt := structRegistry[ts]; stt != nil && i < stt.NumFields() {
				name = "frame/" + lastSeg(ts) + "." + stt.Field(i).Name()
			}
			g.addObNoAssume("frame", name, pos, st, fmt.Sprintf("(forall ((r Int)) (=> (select %s r) (= (select %s r) (select %s r))))", alloc0.S, h1.S, h0.S))
			continue
		}
		switch {
		case strings.HasPrefix(k, "obj:"):
			stt := g.structByKey(k)
			srt := g.w.structSorts[strings.TrimPrefix(k, "obj:")]
			if stt == nil || srt == "" {
				continue
			}
			var eqs []string
			for i := 0; i < stt.NumFields(); i++ {
				if matched && modFields[stt.Field(i).Name()] {
					continue
				}
				eqs = append(eqs, fmt.Sprintf("(= (%s_f%d (select %s r)) (%s_f%d (select %s r)))", srt, i, h1.S, srt, i, h0.S))
			}
			if len(eqs) == 0 {
				continue
			}
			g.addObNoAssume("frame", name, pos, st, fmt.Sprintf("(forall ((r Int)) (=> (select %s r) (and %s true)))", alloc0.S, strings.Join(eqs, " ")))
		case strings.HasPrefix(k, "E:"):
			if matched {
				continue
			}
			et := strings.TrimPrefix(k, "E:")
			sel := ""
			for dk := range w.pureDecl {
				_ = dk
			}
			// element heaps: arrays allocated at entry keep their contents
			selName := selemKeyRegistry[et]
			if selName == "" {
				continue
			}
			sel = selName
			g.addObNoAssume("frame", name, pos, st, fmt.Sprintf("(forall ((s Slice) (j Int)) (=> (select %s (sbase s)) (= (%s %s s j) (%s %s s j))))", alloc0.S, sel, h1.S, sel, h0.S))
		case strings.HasPrefix(k, "ptr:"), strings.HasPrefix(k, "MV:"), strings.HasPrefix(k, "MD:"):
			if matched {
				continue
			}
			// cells of escaping locals live in these heaps too: only the cells that existed at entry are in the frame
			g.addObNoAssume("frame", name, pos, st, fmt.Sprintf("(forall ((r Int)) (=> (select %s r) (= (select %s r) (select %s r))))", alloc0.S, h1.S, h0.S))
		default:
			if matched {
				continue
			}
			g.addObNoAssume("frame", name, pos, st, fmt.Sprintf("(= %s %s)", h1.S, h0.S))
		}
	}
}

func (g *Gen) addObNoAssume(kind, name string, pos token.Pos, st *State, cond string) {
	ob := Oblig{Name: name, Kind: kind, Pos: g.w.prog.Fset.Position(pos), PC: st.pc, Cond: cond}
	g.obs = append(g.obs, ob)
	g.w.events = append(g.w.events, event{ob: &ob})
}

// heapBound reports whether a heap-sorted variable is currently bound (an axiom closed over all heaps is being evaluated):
// typing and allocation facts about what is read from "every heap" would be false, so they are not stated there.
func (w *World) heapBound() bool {
	for _, bd := range w.binders {
		if strings.HasPrefix(bd.sort, "(Array") {
			return true
		}
	}
	return false
}

// dynamic type tags of interface values with value payloads
var typeIDs = map[string]int{}

func typeID(t types.Type) int {
	k := types.TypeString(t, nil)
	if id, ok := typeIDs[k]; ok {
		return id
	}
	typeIDs[k] = len(typeIDs) + 1
	return typeIDs[k]
}

func (w *World) itypeFn() string {
	if !w.pureDecl["itype"] {
		w.pureDecl["itype"] = true
		w.decls = append(w.decls, "(declare-fun itype (Int) Int)")
	}
	return "itype"
}

// onlyDirectPointers: every call argument whose type can reach a *T (T given as a type string) is a *T whose target
// havocPointees resolves (local, field, element) or a varargs array of such pointers.
func (g *Gen) onlyDirectPointers(args []ssa.Value, elem string) bool {
	if len(args) == 0 {
		return false
	}
	var reaches func(t types.Type, depth int) bool
	reaches = func(t types.Type, depth int) bool {
		if depth > 8 {
			return true // give up: assume it can
		}
		switch u := t.Underlying().(type) {
		case *types.Pointer:
			if types.TypeString(u.Elem(), nil) == elem {
				return true
			}
			return reaches(u.Elem(), depth+1)
		case *types.Slice:
			return reaches(u.Elem(), depth+1)
		case *types.Array:
			return reaches(u.Elem(), depth+1)
		case *types.Map:
			return reaches(u.Elem(), depth+1)
		case *types.Struct:
			for i := 0; i < u.NumFields(); i++ {
				if reaches(u.Field(i).Type(), depth+1) {
					return true
				}
			}
			return false
		case *types.Interface, *types.Signature, *types.Chan:
			return true
		}
		return false
	}
	resolvable := func(a ssa.Value) bool {
		switch x := a.(type) {
		case *ssa.Alloc:
			return g.escaping[x]
		case *ssa.FieldAddr, *ssa.IndexAddr:
			ad, ok := g.addrs[a]
			return ok && ad.kind != "unknown"
		}
		return false
	}
	for i, a := range args {
		if !reaches(a.Type(), 0) {
			continue
		}
		if pt, ok := a.Type().Underlying().(*types.Pointer); ok && types.TypeString(pt.Elem(), nil) == elem {
			if resolvable(a) {
				continue
			}
			return false
		}
		// the receiver of a method whose struct has no *T inside was filtered by reaches; a varargs array of *T:
		if sl, ok := a.(*ssa.Slice); ok && i == len(args)-1 {
			if al, ok := sl.X.(*ssa.Alloc); ok {
				okAll := true
				for _, r := range *al.Referrers() {
					if ia, ok := r.(*ssa.IndexAddr); ok {
						for _, r2 := range *ia.Referrers() {
							if s, ok := r2.(*ssa.Store); ok && s.Addr == ia && !resolvable(s.Val) {
								okAll = false
							}
						}
					}
				}
				if okAll {
					continue
				}
			}
		}
		return false
	}
	return true
}

// interiorOf: the struct type with type string ts occurs as a by-value field (transitively) of a registered struct named name.
func interiorOf(ts, name string, depth int) bool {
	for k, st := range structRegistry {
		if !(strings.HasSuffix(k, "."+name) || k == name) || st == nil {
			continue
		}
		var walk func(s *types.Struct, d int) bool
		walk = func(s *types.Struct, d int) bool {
			if d > 3 {
				return false
			}
			for i := 0; i < s.NumFields(); i++ {
				ft := s.Field(i).Type()
				if fs, ok := ft.Underlying().(*types.Struct); ok {
					if types.TypeString(ft, nil) == ts || walk(fs, d+1) {
						return true
					}
				}
			}
			return false
		}
		if walk(st, 0) {
			return true
		}
	}
	return false
}

// globalRef: the reference of a struct-typed package variable: positive, and distinct from the other globals'.
func (w *World) globalRef(key string) Term {
	t := w.globalID(key)
	if !w.pureDecl["gref:"+key] {
		w.pureDecl["gref:"+key] = true
		w.assumeGlobal(fmt.Sprintf("(> %s 0)", t.S))
		for k := range w.pureDecl {
			if strings.HasPrefix(k, "gref:") && k != "gref:"+key {
				w.assumeGlobal(fmt.Sprintf("(not (= %s %s))", t.S, w.globalID(strings.TrimPrefix(k, "gref:")).S))
			}
		}
	}
	return t
}
