#!/usr/bin/env python3
"""ddmin_unsat.py <query.smt2>: greedy minimisation of the assert lines of an unsat stand-alone query (debugging aid)."""
import subprocess, sys
import os
SOLVER = os.environ.get("SOLVER", "z3")
lines = open(sys.argv[1]).read().split("\n")
idx = [i for i, l in enumerate(lines) if l.startswith("(assert ")]
def unsat(keep):
    ks = set(keep)
    txt = "\n".join(l for i, l in enumerate(lines) if not l.startswith("(assert ") or i in ks)
    r = subprocess.run((["cvc5", "--lang=smt2", "--tlimit=10000"] if SOLVER == "cvc5" else ["z3", "-in", "-T:10", "smt.mbqi=false"]), input=txt.encode(), capture_output=True).stdout.decode()
    return r.strip().split("\n")[0] == "unsat"
keep = list(idx)
assert unsat(keep), "not unsat to begin with"
chunk = max(1, len(keep) // 2)
while chunk >= 1:
    i = 0
    while i < len(keep):
        trial = keep[:i] + keep[i + chunk:]
        if unsat(trial):
            keep = trial
        else:
            i += chunk
    chunk //= 2
for i in keep:
    print(lines[i][:2500]); print()
