#!/bin/bash
# usage: mk_mutant.sh <id> <props> <file relative to repo> <sed expression> : hand-made mutant for the must-fail corpus.
# Builds the mutated package in a scratch worktree (must compile), stores selftest/mutants/<id>.patch + .json.
export GOFLAGS=-mod=mod GOPROXY=off GOSUMDB=off GOTOOLCHAIN=local
id=$1; props=$2; file=$3; expr=$4
W=/tmp/st/mk_$id; rm -rf $W; mkdir -p /tmp/st
git -C /repo worktree add --detach $W HEAD >/dev/null 2>&1 || exit 2
sed -i "$expr" $W/$file
if git -C $W diff --quiet; then echo "no change made"; git -C /repo worktree remove --force $W; exit 3; fi
(cd $W && go build ./$(dirname $file)/) || { echo "does not compile"; git -C /repo worktree remove --force $W; exit 4; }
git -C $W diff > /verif/selftest/mutants/$id.patch
echo "{\"id\":\"$id\",\"properties\":\"$props\",\"kind\":\"hand-made mutant\"}" > /verif/selftest/mutants/$id.json
git -C /repo worktree remove --force $W
echo "mutant $id written"
