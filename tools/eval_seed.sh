#!/bin/bash
# usage: eval_seed.sh <seed dir> [props...]  : confirms a seeded change in a scratch worktree and runs the checks against it
# prints one summary line: SEED <id> confirmed=<y/n> detected_by=<props> ...
S=$(readlink -f $1); ID=$(basename $S); shift
export GOFLAGS=-mod=mod GOPROXY=off GOSUMDB=off GOTOOLCHAIN=local
PROPS="$@"
[ -z "$PROPS" ] && PROPS=$(python3 -c "import json;print(json.load(open('$S/meta.json'))['property'])")
W=/tmp/ev/$ID; O=/tmp/ev/out_$ID
rm -rf $W $O; mkdir -p /tmp/ev $O
git -C /repo worktree add --detach $W HEAD >/dev/null 2>&1 || { echo "SEED $ID worktree-failed"; exit 2; }
trap "git -C /repo worktree remove --force $W >/dev/null 2>&1; rm -rf $W" EXIT
DEMO=$(head -1 $S/DEMO_PATH.txt | tr -d '\r' | awk '{print $1}')
DEMOFILE=$(ls $S/*_test.go | head -1)
PKG=./$(dirname $DEMO)
cp $DEMOFILE $W/$DEMO
base=$(cd $W && go test -vet=off -count=1 -timeout 180s -run 'Seed' $PKG 2>&1 | tail -3 | tr '\n' ' ')
if ! (cd $W && git apply $S/patch.diff 2>/dev/null || git apply -3 $S/patch.diff 2>/dev/null || patch -p1 -s -F3 < $S/patch.diff >/dev/null 2>&1); then echo "SEED $ID patch-does-not-apply"; exit 3; fi
build=$(cd $W && go build ./... 2>&1 | tail -2 | tr '\n' ' ')
mut=$(cd $W && go test -vet=off -count=1 -timeout 180s -run 'Seed' $PKG 2>&1 | tail -3 | tr '\n' ' ')
rm -f $W/$DEMO
pkgs=$(cd $W && git diff --name-only HEAD | grep '\.go$' | xargs -n1 dirname | sort -u | sed 's|^|./|' | tr '\n' ' ')
suite=$(cd $W && go test -vet=off -count=1 -timeout 600s $pkgs 2>&1 | grep -E "^FAIL|^--- FAIL|^panic:|build failed" | head -3 | tr '\n' ' ')
conf=n
echo "$base" | grep -q "^ok\|	ok\| ok " && echo "$mut" | grep -q "FAIL" && [ -z "$build" ] && [ -z "$suite" ] && conf=y
det=""
for p in $PROPS; do
  out=$(VERIF_REPO=$W VERIF_OUT=$O /verif/bin/govc check $p 2>&1)
  if echo "$out" | grep -q "^VIOLATION"; then det="$det $p"; echo "$out" | grep "^VIOLATION" | sed 's/replay=[^ ]* //' | head -4 | sed "s/^/    /"; fi
done
echo "SEED $ID confirmed=$conf detected_by=[${det# }] base=[$base] mutated=[$(echo $mut | cut -c1-120)] build=[$build] suite=[$suite]"
rm -rf $O
