#!/usr/bin/env python3
# one-off: turns the prototype's *.contracts files into per-package contracts_verif.go files with `//@ unit` sections
import os,sys,collections
SRC='/verif/govc/proto-contracts'
OUT=sys.argv[1] if len(sys.argv)>1 else '/repo'
T=[ # unit, props, file, filter, pkgdir
('policies','C05','proxy.contracts',r'proxy\.(First|Random|LeastConn|RoundRobin)\)\.Select$|hostByHashing$','caskethttp/proxy'),
('max_bytes_reader','C17','limits.contracts',r'maxBytesReader\)\.Read$','caskethttp/limits'),
('listener_timeouts','C17','hs.contracts',r'Timeouts$','caskethttp/httpserver'),
('parser_chain','C10,C11','cf.contracts',r'parser\)\.(doImport|directive|directives|blockContents|addresses|snippetTokens)$|Dispenser\)\.(Next|NextArg|Val)$','casketfile'),
('match_host','C01','vh.contracts',r'vhostTrie\)\.matchHost$','caskethttp/httpserver'),
('htpasswd_lock','C08','ba.contracts',r'GetHtpasswdMatcher$','caskethttp/basicauth'),
('basicauth_handler','C03,C12,C19','ba2.contracts',r'BasicAuth\)\.ServeHTTP$','caskethttp/basicauth'),
('replacer','C20,C19','repl.contracts',r'replacer\)\.Replace$','caskethttp/httpserver'),
('plaintext_redirects','C15','https.contracts',r'httpserver\.makePlaintextRedirects$|hostHasOtherPort$','caskethttp/httpserver'),
('make_tls_config','C06','tls.contracts',r'caskettls\.MakeTLSConfig$','caskettls'),
('skip_compressed','C18','misc.contracts',r'SkipCompressedFilter\)\.ShouldCompress$','caskethttp/gzip'),
('fcgi_records','C13,C19','fcgi.contracts',r'streamWriter\)\.(Write|Close)$|FCGIClient\)\.(writeBeginRequest|writeEndRequest|writePairs)$|record\)\.read$|fastcgi\.(encodeSize|header\)\.init)$','caskethttp/fastcgi'),
('joining_slash','C04','rp.contracts',r'proxy\.singleJoiningSlash$','caskethttp/proxy'),
('limit_handler','C17,C12','lim.contracts',r'limits\.Limit\)\.ServeHTTP$','caskethttp/limits'),
('recorder','C20,C12','rec.contracts',r'ResponseRecorder\)\.(Write|WriteHeader)$','caskethttp/httpserver'),
('match_path','C01','mp.contracts',r'vhostTrie\)\.matchPath$','caskethttp/httpserver'),
('execute_directives','C09','ed.contracts',r'casket\.executeDirectives$','.'),
('server_servehttp','C12','srv.contracts',r'httpserver\.Server\)\.ServeHTTP$','caskethttp/httpserver'),
('proxy_conns','C05','px.contracts',r'proxy\.Proxy\)\.ServeHTTP$','caskethttp/proxy'),
('serve_file','C02,C18','sf.contracts',r'staticfiles\.FileServer\)\.serveFile$','caskethttp/staticfiles'),
('client_hello_conn','C19','chc.contracts',r'clientHelloConn\)\.Read$','caskethttp/httpserver'),
('lifecycle','C16','lc.contracts',r'casket\.startWithListenerFds$|Instance\)\.ShutdownCallbacks$','.'),
('error_handler','C12','eh.contracts',r'errors\.ErrorHandler\)\.ServeHTTP$','caskethttp/errors'),
('templates_handler','C12','tp.contracts',r'templates\.Templates\)\.ServeHTTP$','caskethttp/templates'),
('internal_handler','C03,C12','in.contracts',r'internalsrv\.Internal\)\.ServeHTTP$','caskethttp/internalsrv'),
('response_filter_writer','C18','gz.contracts',r'gzip\.ResponseFilterWriter\)\.(Write|WriteHeader)$','caskethttp/gzip'),
('upstream_request','C04','cu.contracts',r'proxy\.createUpstreamRequest$','caskethttp/proxy'),
('browse_redirect','C02','br.contracts',r'browse\.Browse\)\.ServeHTTP$','caskethttp/browse'),
('trie_match','C01','mt.contracts',r'vhostTrie\)\.Match$','caskethttp/httpserver'),
('serve_http_routing','C01,C06','sh.contracts',r'httpserver\.Server\)\.serveHTTP$','caskethttp/httpserver'),
('logger_handler','C20,C12','lg.contracts',r'log\.Logger\)\.ServeHTTP$','caskethttp/log'),
('auto_https','C15','ea.contracts',r'httpserver\.(enableAutoHTTPS|markQualifiedForAutoHTTPS)$','caskethttp/httpserver'),
('qualifies','C15','qm.contracts',r'caskettls\.QualifiesForManagedTLS$','caskettls'),
('get_config','C06','gc.contracts',r'caskettls\.configGroup\)\.getConfig$','caskettls'),
('header_rules','C04','mh.contracts',r'proxy\.mutateHeadersByRules$','caskethttp/proxy'),
('client_hello_parser','C19','ch.contracts',r'httpserver\.parseRawClientHello$','caskethttp/httpserver'),
('stream_reader','C13,C19','sr.contracts',r'fastcgi\.streamReader\)\.Read$','caskethttp/fastcgi'),
('directory_listing','C02','dl.contracts',r'browse\.directoryListing$','caskethttp/browse'),
('archive_walk','C02','sa.contracts',r'browse\.Browse\)\.ServeArchive\$2$','caskethttp/browse'),
('start_servers','C08','ss.contracts',r'casket\.startServers$','.'),
('lexer_next','C10','lx.contracts',r'casketfile\.lexer\)\.next$','casketfile'),
('gzip_handler','C12,C18','gzs.contracts',r'gzip\.Gzip\)\.ServeHTTP$','caskethttp/gzip'),
('upstream_select','C05','su.contracts',r'proxy\.staticUpstream\)\.Select$','caskethttp/proxy'),
('path_matches','C03','pm.contracts',r'httpserver\.Path\)\.Matches$','caskethttp/httpserver'),
]
by=collections.OrderedDict()
for u in T: by.setdefault(u[4],[]).append(u)
for d,us in by.items():
    pkgname={'.' :'casket'}.get(d, os.path.basename(d))
    lines=['//go:build verif','',
    '// Machine-checked contracts for this package (guard: build tag `verif`; this file contains comments only).',
    '// Read by /verif/bin/govc: each `//@ unit` section is one verification unit (the functions matching `filter`,',
    '// verified against the contracts of the section; callees are used through their contracts only).','',
    'package '+pkgname,'']
    for (name,props,f,flt,_) in us:
        lines.append('//@ unit %s props=%s filter=`%s`'%(name,props,flt))
        for l in open(os.path.join(SRC,f)).read().rstrip('\n').split('\n'):
            lines.append(l.rstrip())
        lines.append('')
    p=os.path.join(OUT,d,'contracts_verif.go')
    open(p,'w').write('\n'.join(lines))
    print('wrote',p,len(us),'units')
