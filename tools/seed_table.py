#!/usr/bin/env python3
# turns the per-seed evaluation logs (out/seed_<id>.txt written by eval_all_seeds.sh) into seeded/RESULTS.md and records
# the confirmation in each seeded/<id>/meta.json
import json,glob,re,os
rows=[]
for d in sorted(glob.glob('/verif/seeded/C*/')):
    sid=os.path.basename(d.rstrip('/'))
    log=open('/verif/out/seed_%s.txt'%sid).read() if os.path.exists('/verif/out/seed_%s.txt'%sid) else ''
    m=re.search(r'^SEED %s confirmed=(\w) detected_by=\[([^\]]*)\]'%sid,log,re.M)
    viol=[re.sub(r'^\s*VIOLATION property=(\S+) obligation=(\S+).*',r'\1: \2',l) for l in log.split('\n') if 'VIOLATION' in l]
    meta=json.load(open(d+'meta.json'))
    conf=m.group(1) if m else '?'
    det=m.group(2) if m else ''
    meta['confirmed_in_scratch_worktree']={'confirmed':conf=='y','how':'tools/eval_seed.sh: scratch worktree of /repo HEAD; demo passes without the patch, fails with it; go build ok; tests of the touched packages pass with it; then the property checks run with VERIF_REPO=<scratch>','detected_by':det.split(),'failed_obligations':viol[:6]}
    json.dump(meta,open(d+'meta.json','w'),indent=1)
    summ=(meta.get('summary') or meta.get('description') or '')[:150].replace('\n',' ').replace('|','/')
    rows.append((sid,meta.get('property',sid[:3]),conf,det or '—',('; '.join(v.split(': ',1)[1] for v in viol[:2])) or '—',summ))
with open('/verif/seeded/RESULTS.md','w') as f:
    f.write('# Seeded changes (from independent sub-agents) and which check catches them\n\n')
    f.write('Each change compiles, passes the existing test suite, and comes with a demonstration test that fails with it and passes without it; all of that was re-confirmed in a scratch worktree (`tools/eval_seed.sh`).\n\n')
    f.write('| seed | property | confirmed | caught by | failed obligation(s) | what the change does |\n|---|---|---|---|---|---|\n')
    for r in rows: f.write('| %s | %s | %s | %s | %s | %s |\n'%r)
    n=sum(1 for r in rows if r[3]!='—')
    f.write('\n%d of %d caught. Not caught: %s.\n'%(n,len(rows),', '.join(r[0] for r in rows if r[3]=='—')))
print(open('/verif/seeded/RESULTS.md').read()[-600:])
