#!/bin/bash
# development: run every unit, text output, in parallel; prints the failing lines with their unit
export GOFLAGS=-mod=mod GOPROXY=off GOSUMDB=off GOTOOLCHAIN=local
mkdir -p /verif/out/dev
find /verif/out/dev -type f -delete
find ${VERIF_REPO:-/repo} -name contracts_verif.go | while read f; do
  d=$(dirname ${f#${VERIF_REPO:-/repo}/} | tr '/' '_')
  grep -o '^//@ unit [a-z_0-9]*' $f | awk '{print $3}' | while read u; do echo "$f $u $d"; done
done | xargs -P 12 -L 1 bash -c '/verif/bin/govc unit -file $0 -unit $1 -text > /verif/out/dev/$2.$1.txt 2>&1'
grep -E "FAILED|SPEC ERROR|ERROR:|VACUOUS" /verif/out/dev/*.txt | sed 's|/verif/out/dev/||'
echo "functions: $(cat /verif/out/dev/*.txt | grep -c '^==')"
