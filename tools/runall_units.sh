#!/bin/bash
# development: run every unit, text output, in parallel
export GOFLAGS=-mod=mod GOPROXY=off GOSUMDB=off GOTOOLCHAIN=local
mkdir -p /verif/out/dev
find /verif/out/dev -type f -delete
/verif/bin/govc units | awk '{print $1}' > /verif/out/dev/units.txt
find ${VERIF_REPO:-/repo} -name contracts_verif.go | while read f; do
  grep -o '^//@ unit [a-z_0-9]*' $f | awk '{print $3}' | while read u; do echo "$f $u"; done
done | xargs -P 10 -L 1 bash -c '/verif/bin/govc unit -file $0 -unit $1 -text -json /verif/out/dev/$1.json > /verif/out/dev/$1.txt 2>&1'
cat /verif/out/dev/*.txt | grep -v "^==" 
cat /verif/out/dev/*.txt | grep -c "^=="
