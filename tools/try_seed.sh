#!/bin/bash
# usage: try_seed.sh <seed id> <contracts file rel to /repo> <unit> : unit result on the clean tree, then with the seed applied (reverted afterwards)
export GOFLAGS=-mod=mod GOPROXY=off GOSUMDB=off GOTOOLCHAIN=local
S=/verif/seeded/$1; F=/repo/$2; U=$3
echo "--- clean"; /verif/bin/govc unit -file $F -unit $U -text 2>&1 | grep -E "FAILED|SPEC ERROR|ERROR:" | head -8
cd /repo && git apply $S/patch.diff || { echo "patch does not apply"; exit 1; }
echo "--- with $1"; /verif/bin/govc unit -file $F -unit $U -text 2>&1 | grep -E "FAILED|SPEC ERROR|ERROR:" | head -8
git -C /repo apply -R $S/patch.diff
git -C /repo status --short | grep -v contracts_verif.go | head -3
