#!/usr/bin/env python3
# usage: add_requires.py <contracts file> <unit> <func block name> <requires text>
# inserts `//@   requires <text>` right after the `//@ func <name>` (or `//@ extern <name>`) line of that unit
import sys,re
p,unit,fn,req=sys.argv[1:5]
L=open(p).read().split('\n')
inunit=False;done=False
for i,l in enumerate(L):
    m=re.match(r'//@ unit (\S+)',l)
    if m: inunit=(m.group(1)==unit)
    if inunit and (l.strip()=='//@ func '+fn or l.strip()=='//@ extern '+fn):
        L.insert(i+1,'//@   requires '+req); done=True; break
if not done: sys.exit('block not found: %s in %s'%(fn,unit))
open(p,'w').write('\n'.join(L))
