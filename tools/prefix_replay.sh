#!/bin/bash
# usage: prefix_replay.sh <pkgdir> <testfile> <TestName> <changed source files...> : runs the replay test with the (uncommitted) fix stashed
P=$1; T=$2; N=$3; shift 3
cd /repo && git stash -q -- "$@" && /verif/tools/replay.sh $P $T $N | grep -E "DEFECT-REPRODUCED|^ok|^FAIL|panic:" | head -5; cd /repo && git stash pop -q
