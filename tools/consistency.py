#!/usr/bin/env python3
"""consistency.py: cross-unit table of contracts that a unit only ASSUMES for a /repo function (a `//@ func` block for a
function outside the unit's filter) against the unit(s) in which that function is PROVED (inside the filter).
Writes /verif/CONSISTENCY.md. Run by hand after contract edits; never at check time. Textual comparison of normalised
clauses: an assumed `ensures` with no identical proved `ensures` is 'assumed beyond the proof' (it may still follow from
the proved clauses - a weaker restatement - which this tool cannot see); a proved `requires` that the assuming unit does
not also demand is a precondition the proof relied on but that call site does not check."""
import glob, os, re, sys

REPO = os.environ.get("VERIF_REPO", "/repo")
KEYWORDS = ("func ", "extern ", "unit ", "ghost ", "ghostfn ", "spec ", "axiom", "invariant ", "define ", "use ", "//")

def norm(clause):
    c = re.sub(r"^\[[A-Za-z0-9_]+\]\s*", "", clause.strip())
    return " ".join(c.split())

def parse(path):
    pkg = None
    units = []
    cur_unit = None
    cur_func = None
    for raw in open(path):
        line = raw.rstrip("\n")
        m = re.match(r"^package (\w+)", line)
        if m:
            pkg = m.group(1)
        if not line.startswith("//@"):
            continue
        body = line[3:]
        if body.startswith(" unit "):
            h = body[6:].strip()
            name = h.split()[0]
            fm = re.search(r"filter=`([^`]*)`", h)
            fl = re.search(r"files=(\S+)", h)
            cur_unit = {"name": name, "filter": fm.group(1) if fm else ".", "files": fl.group(1) if fl else "", "funcs": {}, "uses": []}
            units.append(cur_unit)
            cur_func = None
            continue
        if cur_unit is None:
            continue
        b = body.strip()
        if body.startswith("   ") and cur_func is not None and not b.startswith("//"):
            for kw in ("requires ", "ensures_on_panic ", "ensures ", "modifies ", "pure", "may_panic", "recovers"):
                if b.startswith(kw):
                    cur_func.setdefault(kw.strip(), []).append(norm(b[len(kw):]))
            continue
        cur_func = None
        if b.startswith("func "):
            cur_func = {}
            cur_unit["funcs"][b[5:].strip()] = cur_func
        elif b.startswith("use "):
            cur_unit["uses"].append(b[4:].strip())
    return pkg, units

def main():
    rows = []
    files = sorted(glob.glob(REPO + "/**/contracts_verif.go", recursive=True))
    allunits = []
    for f in files:
        pkg, units = parse(f)
        for u in units:
            u["pkg"], u["file"] = pkg, os.path.relpath(f, REPO)
            try:
                u["re"] = re.compile(u["filter"])
            except re.error:
                u["re"] = re.compile(re.escape(u["filter"]))
            allunits.append(u)
    def full_name(u, fname):
        # the name govc matches filters against: (*<import path>.T).M, (<import path>.T).M or <import path>.f
        d = os.path.dirname(u["file"])
        ip = "github.com/tmpim/casket" + ("/" + d if d else "")
        m = re.match(r"^\((\*?)([A-Za-z_]\w*)\)\.(.*)$", fname)
        if m:
            return "(%s%s.%s).%s" % (m.group(1), ip, m.group(2), m.group(3))
        return ip + "." + fname
    def proved_in(u, fname):
        return bool(u["re"].search(full_name(u, fname)))
    n_assumed = n_proved = n_diff = 0
    for u in allunits:
        for fname, c in sorted(u["funcs"].items()):
            if proved_in(u, fname):
                continue
            n_assumed += 1
            # a block naming a function of ANOTHER package in full, e.g. (github.com/tmpim/casket/caskethttp/staticfiles.FileServer).IsHidden
            home, short = u["file"], fname
            m = re.match(r"^\((\*?)github\.com/tmpim/casket/?([\w/]*)\.(\w+)\)\.(.*)$", fname) or re.match(r"^()github\.com/tmpim/casket/?([\w/]*)\.()(\w+)$", fname)
            if m:
                d = m.group(2)
                home = (d + "/" if d else "") + "contracts_verif.go"
                short = ("(%s%s).%s" % (m.group(1), m.group(3), m.group(4))) if m.group(3) else m.group(4)
            provers = [v for v in allunits if v["file"] == home and short in v["funcs"] and proved_in(v, short)]
            if home != u["file"] and provers:
                n_proved += 1
                pc = provers[0]["funcs"][short]
                extra = [e for e in c.get("ensures", []) if e not in pc.get("ensures", [])]
                rows.append((u["file"], u["name"], fname, provers[0]["file"].replace("/contracts_verif.go", "") + ":" + provers[0]["name"], "proved in its own package" + ("; assumed `ensures` not literally among the proved ones: " + "; ".join("`%s`" % e for e in extra) if extra else "")))
                continue
            sweeps = [v for v in allunits if v["file"] == u["file"] and fname not in v["funcs"] and v["files"] and proved_in(v, fname)]
            importers = [v for v in allunits if v is not u and fname not in v["funcs"] and proved_in(v, fname)
                         and any(x.strip() == "%s:%s" % (u["file"], u["name"]) for x in v["uses"])]
            if not provers and importers:
                n_proved += 1
                rows.append((u["file"], u["name"], fname, importers[0]["name"], "this very block, imported with `use` by the proving unit"))
                continue
            if not provers:
                note = "not proved anywhere: assumption"
                if sweeps:
                    note = "no contract proved; function is in the safety sweep `%s` only" % sweeps[0]["name"]
                if not (c.get("ensures") or c.get("requires") or c.get("modifies") or c.get("pure")):
                    note += " (empty contract: frame-empty, no promises)"
                rows.append((u["file"], u["name"], fname, "—", note))
                continue
            n_proved += 1
            for v in provers:
                pc = v["funcs"][fname]
                extra_ens = [e for e in c.get("ensures", []) if e not in pc.get("ensures", [])]
                missing_req = [r for r in pc.get("requires", []) if r not in c.get("requires", [])]
                notes = []
                if extra_ens:
                    notes.append("assumed `ensures` not literally among the proved ones: " + "; ".join("`%s`" % e for e in extra_ens))
                if missing_req:
                    notes.append("proved under `requires` not demanded here: " + "; ".join("`%s`" % r for r in missing_req))
                if c.get("pure") and not pc.get("pure"):
                    notes.append("assumed `pure`, proved contract has effects/ghost updates")
                # frames: every heap the proof lets the function write must be in the frame the caller reckons with
                def entries(cc):
                    out = []
                    for m in cc.get("modifies", []):
                        out += [x.strip() for x in m.split(",") if x.strip()]
                    return out
                am, pm = entries(c), entries(pc)
                wider = [x for x in pm if not x.startswith("ghost:") and x not in am and x.split(".")[0] not in am]
                if wider:
                    notes.append("proved frame has entries the assumed frame lacks: " + ", ".join("`%s`" % x for x in wider))
                if notes:
                    n_diff += 1
                rows.append((u["file"], u["name"], fname, v["name"], "; ".join(notes) if notes else "same or weaker clauses"))
    out = ["# Cross-unit consistency of assumed contracts", "",
           "Generated by `tools/consistency.py` (textual; see its header for what the comparison can and cannot see).",
           "%d `//@ func` blocks are assumptions of the unit they stand in (the function is outside that unit's filter);" % n_assumed,
           "%d of them are proved in another unit of the same package, %d of those with textual differences." % (n_proved, n_diff), "",
           "| contracts file | assuming unit | function | proved in unit | comparison |", "|---|---|---|---|---|"]
    for r in rows:
        out.append("| %s | %s | `%s` | %s | %s |" % r)
    open("/verif/CONSISTENCY.md", "w").write("\n".join(out) + "\n")
    print("%d assumed, %d proved elsewhere, %d with differences" % (n_assumed, n_proved, n_diff))

if __name__ == "__main__":
    main()
