#!/usr/bin/env python3
# regenerates /verif/MANIFEST.json from the unit tags found in /repo and the table below
import json,subprocess,re,os,glob
props={}
for l in open('/verif/properties.jsonl'):
    p=json.loads(l); props[p['id']]=p
# units per property
units={}
for f in subprocess.check_output("find /repo -name contracts_verif.go",shell=True).decode().split():
    for m in re.finditer(r'(?m)^//@ unit (\S+) (.*)$',open(f).read()):
        pm=re.search(r'props=(\S+)',m.group(2))
        if pm:
            for p in pm.group(1).split(','): units.setdefault(p,[]).append(m.group(1))
TEXT={
'C01':("proof of the lookup contracts of the virtual-host trie (host order exact -> fewest wildcards -> fallbacks; byte-wise longest path prefix against recursive spec functions; Match composition; no-site => WriteSiteNotFound once, chain not called, returns 0) on the real functions, for all inputs and all iterations","assumed specs of strings.Split/Join/ToLower, net.SplitHostPort; insert side (insertPath/Insert) and order independence argued from the lookup contracts mentioning only the abstract view (DESIGN 4/C01)"),
'C02':("sink contracts: every http.ServeContent / archive Write / listing append / http.Redirect call in staticfiles and browse is reached only with a non-hidden, non-directory file resp. a Location beginning with exactly one '/'; proved as obligations at the call sites","http.Dir jail, os.SameFile, ServeContent writing only f's bytes, URL.String escaping are assumed library behaviour; ServeListing body not yet under contract"),
'C03':("decision logic of basicauth and internal: protected and not authenticated => 401/404 and Next not called, for all rule sets and paths; Path.Matches functional contract over path.Clean","agreement of Path.Matches with each content handler's own path resolution is assumed (DESIGN 4/C03); path.Clean uninterpreted with two axioms"),
'C04':("header and path algebra of the proxy: upstream header map after createUpstreamRequest (every hop-by-hop header and every header named in any Connection value removed, client map untouched except X-Forwarded-For), singleJoiningSlash, header-rule application frame","body/trailer byte fidelity (io.Copy, net/http transport) is out of reach and assumed; response side of ReverseProxy.ServeHTTP not yet under contract"),
'C05':("every policy returns an available host or nil, nil only if none is available (all five policies incl. hashed and round-robin probing after repair), least_conn minimal, first earliest, round robin next in cyclic order; staticUpstream.Select establishes the policy preconditions; Conns restored on every exit of Proxy.ServeHTTP incl. the panic edge","retry liveness over wall-clock time and evenness over histories are not per-call contracts (assumed/out of reach)"),
'C06':("SNI lookup order (exact, fewest wildcards, catch-all) in getConfig; TLS and plaintext never mixed by MakeTLSConfig; strict SNI==Host refusal in serveHTTP","crypto/tls honouring the returned config; no-nil-entry precondition of MakeTLSConfig established by its caller (argued)"),
'C08':("per-call frame conditions: GetHtpasswdMatcher lock balance on every return; startServers opens two sockets per server on success (its failure case is the recorded finding F12)","directive setups and goroutines outside the modelled global state; Restart/Start frames not yet under contract"),
'C09':("executeDirectives calls setups in directive-list order regardless of token position (ghost last-directive index), with the nil-map and index checks of its four nested loops","each setup only touches its own controller/site state (assumed); table facts about `directives` not yet evaluated"),
'C10':("no index/slice/nil-map panic in the dispenser and parser chain on any token list (modular through the Dispenser contracts); lexer.next terminates on every finite input","termination of the parser through `import` is a known non-termination (not claimed); print/parse round trip out of reach"),
'C11':("safety obligations (index, slice, division, nil-map, explicit panic) of directive setup code against the Dispenser contracts","library calls assumed non-panicking; -validate == start is relational and only argued"),
'C12':("wrapper protocol with ghost writer state: Server.ServeHTTP (incl. recovered panic writes 500 once), ErrorHandler (incl. panic edge through the named deferred recovery), Templates (buffered body forwarded), Gzip, Logger, BasicAuth, Internal, Limit obey 'error status consumed exactly once, returns 0' resp. propagate","third-party handlers obey the assumed interface contract H1-H3"),
'C13':("FastCGI record arithmetic: header/padding, size encoding round trip decode(encode(n))==n, chunking of streams into records <= 65535, reader bounds, parameter pairs never sliced out of range","binary.Write/bufio byte order specs; responder behaviour; path split and status parsing not yet under contract"),
'C15':("qualification is literally the stated conjunction; managed => enabled/https/443; redirect sites only for TLS sites not themselves on the HTTP port and only when no other config owns host:80","certmagic.SubjectQualifiesForPublicCert uninterpreted"),
'C16':("callback order inside startWithListenerFds and ShutdownCallbacks via ghost counters at the dynamic call sites (sequential part)","repeated/concurrent signals, wait group across goroutines not modelled; Restart not yet under contract"),
'C17':("maxBytesReader.Read never hands out more than the limit, sticky error, no overflow; first matching limit wins; listener timeouts are the strictest set value (0 = none = weakest), defaults only when unset","sort.Sort spec; chunked framing in net/http; header-size limit merge not yet under contract"),
'C18':("compress <=> Content-Encoding: gzip set by us <=> body routed through the gzip writer; any already-encoded response is skipped; Content-Length removed; Gzip.ServeHTTP protocol","equality of decoded bytes is compress/gzip's round trip (assumed)"),
'C19':("no run-time check can fail in the peer-facing parsers under contract (ClientHello parser and heuristics, FastCGI reader/writer, Replace, BasicAuth) for any byte string; ClientHello tee buffer invariant across reads","net/http and textproto parsers are outside /repo"),
'C20':("Replace is safe on all inputs, terminates and is single pass (only a suffix of the original format is ever rescanned); recorder status/size accounting; one log line per entry on normal paths","concurrency of log writers; line on the panic path is the recorded finding F22"),
}
NA={
'C07':"quantifies over interleavings of live connections with reloads and kernel-level fd hand-over; sequential function contracts cannot express it (DESIGN.md section 4, C07)",
'C14':"quantifies over interleavings of concurrent requests in the select/forward window; no concurrent program logic is available here; the sequential Conns balance is proved under C05 (DESIGN.md section 4, C14)",
}
checks=[];na=[]
for pid in sorted(props):
    if pid in NA: na.append({"property_id":pid,"reason":NA[pid]}); continue
    if pid not in units or pid not in TEXT:
        na.append({"property_id":pid,"reason":"not claimed yet: contracts for this property are under construction"}); continue
    t,n=TEXT[pid]
    checks.append({"property_id":pid,
      "quick_cmd":"/verif/bin/govc check %s -tier quick"%pid,
      "thorough_cmd":"/verif/bin/govc check %s -tier thorough"%pid,
      "evidence_file":"/verif/evidence/%s.json"%pid,
      "replay_cmd_template":"/verif/bin/govc replay {path}",
      "engine":"govc",
      "level_claimed":{"category":"proof","text":t+". Units: "+", ".join(units[pid])+".","design_ref":"DESIGN.md section 4, "+pid},
      "level_note":n+"; trusted base: go/ssa extraction, the govc VC generator, z3/cvc5, assumed specs of external functions (listed per run in the evidence file)",
      "technique":"contract-based deductive verification: weakest-precondition VCs over go/ssa from //@ contracts on the real functions, discharged by z3 4.8.12 / z3 5.1.0 / cvc5 1.0"})
hooks=subprocess.check_output("git -C /repo log --format=%h --grep='^verif:' ",shell=True).decode().split()
m={"version":1,
 "setup_cmd":"cd /verif/govc && GOFLAGS=-mod=mod GOPROXY=off GOSUMDB=off GOTOOLCHAIN=local go build -o /verif/bin/govc .",
 "hooks":{"guard":"verif","enable":"-tags verif (comment-only contracts_verif.go files, one per package; go/packages loads /repo with -tags=verif and govc reads the //@ lines)","baseline_off_cmd":"cd /repo && go test -mod=mod -json -vet=off -count=1 -timeout 25m ./...","source_commits":hooks,"add_only":True},
 "engines":[{"name":"govc","path":"/verif/govc","serves_properties":[c['property_id'] for c in checks],"kind_free_text":"weakest-precondition VC generator over go/ssa (NaiveForm) with //@ contracts kept in /repo/<pkg>/contracts_verif.go, obligations discharged by z3 4.8.12 (incremental, MBQI off), undischarged ones raced stand-alone on z3 4.8.12 / z3 5.1.0 / cvc5 1.0"}],
 "checks":checks,"not_applicable":na,
 "notes":"Contract-based deductive verification of the real code; see DESIGN.md. Known findings: /verif/known_findings.json. Seeded changes: /verif/seeded. Must-fail corpus: /verif/selftest."}
json.dump(m,open('/verif/MANIFEST.json','w'),indent=1)
print(len(checks),'checks',len(na),'n/a')
