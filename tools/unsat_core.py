#!/usr/bin/env python3
"""unsat_core.py <query.smt2> [timeout s]: names every top-level assert of a stand-alone query and prints z3's unsat core
(debugging aid for suspected inconsistent assumptions; never used by a check)."""
import re, subprocess, sys
src = open(sys.argv[1]).read()
to = sys.argv[2] if len(sys.argv) > 2 else "30"
lines = src.split("\n")
out = ["(set-option :produce-unsat-cores true)", "(set-option :smt.core.minimize true)"]
names = {}
n = 0
for l in lines:
    if l.startswith("(assert ") and l.rstrip().endswith(")"):
        body = l.rstrip()[len("(assert "):-1]
        name = "a%d" % n; n += 1
        names[name] = body
        out.append("(assert (! %s :named %s))" % (body, name))
    elif l.startswith("(check-sat"):
        out.append("(check-sat)"); out.append("(get-unsat-core)")
    elif l.startswith("(get-"):
        pass
    else:
        out.append(l)
r = subprocess.run(["z3", "-in", "-T:" + to, "smt.mbqi=false"], input="\n".join(out).encode(), capture_output=True).stdout.decode()
print(r.split("\n")[0])
m = re.search(r"\(([a0-9 ]+)\)", r)
if m:
    for nm in m.group(1).split():
        print(nm, ":", names[nm][:1500])
        print()
