#!/usr/bin/env python3
"""Counterexample extraction: cex.py <query.smt2> <plan.json> <timeout s>

The query is the stand-alone negated obligation. The plan lists the function's inputs with the SMT terms that denote
them. We ask z3 5.1 (MBQI on) for a model in phases (first lengths and scalars, then elements and bytes, pinning what
was learnt), and print {"status": "sat", "args": [<Go literal per parameter>]} or {"status": "unknown"|"unsat"}.
Nothing here can make a check pass: it is only used to find a failing input for an obligation that already failed.
"""
import json, re, subprocess, sys

MAXSTR = 70000
MAXELEMS = 48

def run_z3(text, timeout):
    try:
        out = subprocess.run(["z3-new", "-in", "-T:%d" % timeout], input=text.encode(), capture_output=True, timeout=timeout + 5).stdout.decode()
    except Exception as e:
        return "error", str(e)
    first = out.strip().split("\n")[0].strip() if out.strip() else "no-answer"
    return first, out

def parse_values(out):
    vals = {}
    for m in re.finditer(r"\((cexq_\d+)\s+(\(-\s*\d+\)|-?\d+|true|false)\)", out):
        v = m.group(2)
        if v in ("true", "false"):
            vals[m.group(1)] = (v == "true")
        else:
            vals[m.group(1)] = int(re.sub(r"[()\s]", "", v))
    return vals

class Search:
    def __init__(self, base, timeout):
        self.base = re.sub(r"\(check-sat\)\s*$", "", base.strip())
        # quantifier-free reduction: assertions that contain a quantifier are dropped. That only weakens the assumptions,
        # so every real counterexample remains a model; spurious ones are filtered by the replay on the real code.
        self.base_qf = "\n".join(l for l in self.base.split("\n") if "(forall" not in l and "(exists" not in l)
        self.use_qf = False
        self.sanity = []
        self.timeout = timeout
        self.queries = []   # (name, sort, term)
        self.known = {}     # name -> value
        self.byterm = {}
        self.candidate = False

    def q(self, term, sort="Int"):
        if term in self.byterm:
            return self.byterm[term]
        name = "cexq_%d" % len(self.queries)
        self.queries.append((name, sort, term))
        self.byterm[term] = name
        return name

    def solve(self):
        text = "(set-option :produce-models true)\n" + (self.base_qf if self.use_qf else self.base) + "\n"
        for a in self.sanity:
            text += "(assert %s)\n" % a
        for name, sort, term in self.queries:
            text += "(declare-const %s %s)\n(assert (= %s %s))\n" % (name, sort, name, term)
        for name, v in self.known.items():
            if isinstance(v, bool):
                text += "(assert (= %s %s))\n" % (name, "true" if v else "false")
            else:
                text += "(assert (= %s %s))\n" % (name, str(v) if v >= 0 else "(- %d)" % -v)
        names = [n for n, _, _ in self.queries]
        text += "(check-sat)\n"
        if names:
            text += "(get-value (%s))\n" % " ".join(names)
        st, out = run_z3(text, self.timeout)
        vals = parse_values(out)
        # `unknown` (incomplete quantifier reasoning) still comes with a candidate model; it is only a candidate, and the
        # replay on the real code decides whether it is a genuine failing input
        if st == "sat":
            self.known.update(vals)
            return "sat"
        if not self.use_qf and st != "unsat":
            self.use_qf = True
            self.candidate = True
            return self.solve()
        return st

    def val(self, term, sort="Int"):
        return self.known.get(self.byterm.get(term))

def gostr(bs):
    out = []
    for b in bs:
        if 32 <= b < 127 and b not in (34, 92):
            out.append(chr(b))
        else:
            out.append("\\x%02x" % b)
    return '"' + "".join(out) + '"'

def plan_terms(s, term, td, phase_done):
    """register the queries needed for this value given what is known; returns True when fully known"""
    k = td["kind"]
    if k in ("int",):
        s.q(term); return s.val(term) is not None
    if k == "bool":
        s.q(term, "Bool"); return s.val(term, "Bool") is not None
    if k == "string":
        lt = "(strlen %s)" % term
        s.q(lt)
        if "(>= %s 0)" % lt not in s.sanity:
            s.sanity.append("(>= %s 0)" % lt)
        n = s.val(lt)
        if n is None:
            return False
        ok = True
        for i in idxs(min(n, MAXSTR)):
            bt = "(sat %s %d)" % (term, i)
            s.q(bt)
            ok = ok and s.val(bt) is not None
        return ok
    if k == "slice":
        lt = "(slen %s)" % term
        s.q(lt)
        if "(>= %s 0)" % lt not in s.sanity:
            s.sanity.append("(>= %s 0)" % lt)
        n = s.val(lt)
        if n is None:
            return False
        ok = True
        for i in range(min(n, MAXELEMS)):
            et = "(%s %s %s %d)" % (td["selem"], td["eheap"], term, i)
            ok = plan_terms(s, et, td["elem"], phase_done) and ok
        return ok
    if k == "struct":
        ok = True
        for i, f in enumerate(td["fields"]):
            if f["type"]["kind"] == "zero":
                continue
            ok = plan_terms(s, "(%s_f%d %s)" % (td["sort"], i, term), f["type"], phase_done) and ok
        return ok
    if k == "ptr":
        s.q(term)
        r = s.val(term)
        if r is None:
            return False
        if r == 0:
            return True
        ok = True
        for f in td["fields"]:
            if f["type"]["kind"] == "zero":
                continue
            ok = plan_terms(s, "(select %s %s)" % (f["heap"], term), f["type"], phase_done) and ok
        return ok
    return True

def idxs(n):
    if n <= 192:
        return list(range(n))
    return list(range(128)) + list(range(n - 64, n))

def render(s, term, td):
    k = td["kind"]
    if k == "int":
        return str(s.val(term))
    if k == "bool":
        return "true" if s.val(term, "Bool") else "false"
    if k == "string":
        n = min(s.val("(strlen %s)" % term), MAXSTR)
        bs = [97] * n
        for i in idxs(n):
            v = s.val("(sat %s %d)" % (term, i))
            bs[i] = v if v is not None and 0 <= v < 256 else 97
        lit = gostr(bs)
        return lit if td["go"] == "string" else "%s(%s)" % (td["go"], lit)
    if k == "slice":
        n = min(s.val("(slen %s)" % term), MAXELEMS)
        els = [render(s, "(%s %s %s %d)" % (td["selem"], td["eheap"], term, i), td["elem"]) for i in range(n)]
        return "%s{%s}" % (td["go"], ", ".join(els))
    if k == "struct":
        fs = ["%s: %s" % (f["name"], render(s, "(%s_f%d %s)" % (td["sort"], i, term), f["type"])) for i, f in enumerate(td["fields"]) if f["type"]["kind"] != "zero"]
        return "%s{%s}" % (td["go"], ", ".join(fs))
    if k == "ptr":
        if s.val(term) == 0:
            return "nil"
        fs = ["%s: %s" % (f["name"], render(s, "(select %s %s)" % (f["heap"], term), f["type"])) for f in td["fields"] if f["type"]["kind"] != "zero"]
        return "&%s{%s}" % (td["go"], ", ".join(fs))
    return "nil"

def main():
    base = open(sys.argv[1]).read()
    plan = json.load(open(sys.argv[2]))
    timeout = int(sys.argv[3]) if len(sys.argv) > 3 else 20
    s = Search(base, timeout)
    for phase in range(5):
        done = True
        for p in plan["params"]:
            done = plan_terms(s, p["term"], p["type"], phase) and done
        if done and phase > 0:
            break
        st = s.solve()
        if st != "sat":
            print(json.dumps({"status": st, "note": "phase %d" % phase}))
            return
    args = [render(s, p["term"], p["type"]) for p in plan["params"]]
    print(json.dumps({"status": "sat", "args": args, "note": "model of the quantifier-free reduction of the query (candidate; decided by the replay)" if s.candidate else "model"}))

if __name__ == "__main__":
    main()
