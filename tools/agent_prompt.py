#!/usr/bin/env python3
# prints the prompt given to a mutation sub-agent for one property (only the property text + its worktree)
import json,sys
pid=sys.argv[1]
round2 = len(sys.argv)>2 and sys.argv[2]=='round2'
round6 = len(sys.argv)>2 and sys.argv[2]=='round6'
round5 = (len(sys.argv)>2 and sys.argv[2]=='round5') or round6
round4 = (len(sys.argv)>2 and sys.argv[2]=='round4') or round5
round3 = (len(sys.argv)>2 and sys.argv[2]=='round3') or round4
for l in open('/verif/properties.jsonl'):
    p=json.loads(l)
    if p['id']==pid: break
wt=f"/tmp/wt/{pid}"
text=(f"""You are working on the Go project tmpim/casket (a maintained fork of the Caddy v1 web server). You have your own scratch git worktree of it at {wt} . Work ONLY inside {wt} and /tmp/seed/ . Do not read or write /repo or /verif.

Environment: no network. Before every go command run: export GOFLAGS=-mod=mod GOPROXY=off GOSUMDB=off GOTOOLCHAIN=local . Always pass -vet=off -count=1 to go test, and a -timeout.

Here is a semantic property of casket that is supposed to hold:

  Title: {p['title']}
  Statement: {p['statement']}
  Quantified over: {p['quantifier']['text']}
  Main source files involved: {', '.join(p['anchors']['files'])}

{{ROUND2}}Your task: produce TWO different, independent source changes (call them {{LA}} and {{LB}}, in different functions if possible) to casket's non-test Go code, each of which BREAKS this property while
  (1) still compiling (go build ./... and go vet are not required to be clean, but go build must succeed),
  (2) passing the existing test suite unchanged: at minimum `go test -vet=off -count=1 -timeout 10m ./...` for every package you touched and every package that imports it (running the whole suite `cd {wt} && go test -vet=off -count=1 -timeout 25m ./...` is best, ~1-2 minutes),
  (3) being realistic: the kind of defect a maintainer could plausibly introduce during a refactor, optimisation or 'simplification' -- NOT an obviously malicious edit, and NOT something ordinary use would expose at once. It should need something specific to manifest: an unusual or boundary input, a particular multi-step sequence of operations, a fault/crash/panic at a particular point, a rare state (e.g. counter near wrap-around), or two cooperating sites that each look fine alone.
Do not edit or delete existing tests. Do not add build tags. Keep each change small (a few lines to a few dozen).

For each change also write a demonstration: a NEW Go test file (in the appropriate package directory, name it zz_seed_demo_test.go, in-package so it can reach unexported identifiers) whose test FAILS with your change applied and PASSES on the unmodified code. The demonstration must exercise the real code, deterministically, offline, in a few seconds.

Verify all of this yourself by actually running the commands (with the change: build ok, existing tests of affected packages pass, demo fails; without the change (git stash or git checkout of the source file): demo passes).

Deliverables, for X in {{LA}}, {{LB}} -- directory /tmp/seed/{pid}X/ containing:
  - patch.diff : output of `git -C {wt} diff` for the SOURCE change only (not including the demo test file), applicable with `git apply` at the repository root of an unmodified checkout
  - the demo test file, plus a file DEMO_PATH.txt with its path relative to the repository root (e.g. caskethttp/proxy/zz_seed_demo_test.go) and the `go test -run` command that runs it
  - meta.json : {{"property": "{pid}", "summary": "...what the change does and how it breaks the property...", "needs_to_manifest": "...", "files_changed": [...], "commands_run": [...], "demo_fails_with_change": true, "demo_passes_without_change": true, "existing_tests_pass_with_change": true}}
When finished with both, leave the worktree clean (git -C {wt} checkout -- . ; remove your demo test files from it) and reply with a short summary of the two changes. If you cannot find a second change, deliver one.""")
if round3:
    import glob,re,os
    places=set()
    for d in sorted(glob.glob('/verif/seeded/%s?/'%pid)):
        try:
            for l in open(d+'patch.diff'):
                if l.startswith('+++ b/'): cur=l[6:].strip()
                m=re.match(r'^@@ .* @@ (.*)$', l)
                if m and m.group(1).strip(): places.add(cur+': '+m.group(1).strip()[:90])
        except Exception: pass
    hint=('This is a third round. Earlier engineers already changed these places (file: enclosing declaration), so choose DIFFERENT functions and a different mechanism: '+'; '.join(sorted(places))+'. Good hunting grounds: helper functions and constructors the central functions rely on, setup/parsing code of the directives involved, error and panic paths, state that survives across requests or reloads, interactions between two files or two directives, arithmetic and boundary conditions. ')
    if round4:
        hint=hint.replace('This is a third round.','This is a fourth round.')+'IMPORTANT: never use `git stash` (the stash is shared between all worktrees of this repository and other engineers are working in sibling worktrees at the same time): to test without your change, save it with `git diff > /tmp/seed/%s_work.diff`, `git checkout -- <file>`, test, then `git apply /tmp/seed/%s_work.diff`. '%(pid,pid)
        if round5:
            hint=hint.replace('This is a fourth round.','This is a sixth round.' if round6 else 'This is a fifth round.')
        text=text.replace('{ROUND2}',hint).replace('{LA}','K' if round6 else ('I' if round5 else 'G')).replace('{LB}','L' if round6 else ('J' if round5 else 'H')).replace('(git stash or git checkout of the source file)','(git checkout of the source file after saving your diff, see above)')
    else:
        text=text.replace('{ROUND2}',hint).replace('{LA}','E').replace('{LB}','F')
elif round2:
    text=text.replace('{ROUND2}','This is a second round: an earlier engineer already tried the most obvious places (the central function of each mechanism). Look for LESS obvious places: helper functions, constructors and setup code that establish what the central functions rely on, error and panic paths, interactions between two directives or two files, state that survives across requests or reloads. ').replace('{LA}','C').replace('{LB}','D')
else:
    text=text.replace('{ROUND2}','').replace('{LA}','A').replace('{LB}','B')
print(text)
