#!/usr/bin/env python3
# refreshes the `fixed` entries of known_findings.json from the canary records written by commit_fix.sh (run by hand after a fix; never at check time)
import json,glob,subprocess
k=json.load(open('/verif/known_findings.json'))
fixed=[]
for f in sorted(glob.glob('/verif/selftest/mutants/*_prefix.json')):
    m=json.load(open(f))
    msg=subprocess.check_output(['git','-C','/repo','log','-1','--format=%s',m['fix_commit']]).decode().strip()
    for p in m['properties'].split(','):
        fixed.append("fixed: property=%s %s %s [%s; witness /verif/replay/%s*_test.go; canary /verif/selftest/mutants/%s_prefix.patch]"%(p,m['fix_commit'],msg[len('fix: '):],m['id'],('F23' if m['id']=='F29' else m['id'].rstrip('ab')),m['id']))
k['fixed']=fixed
json.dump(k,open('/verif/known_findings.json','w'),indent=1)
print(len(fixed),'fixed entries')
