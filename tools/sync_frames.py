#!/usr/bin/env python3
"""sync_frames.py: for every assumed `//@ func` block whose proved counterpart (same package) has frame entries the assumed
block lacks (CONSISTENCY.md rows 'assumed frame lacks'), add those entries to the assumed block, run the assuming unit,
drop the entries the engine reports as matching no heap of that unit (the unit never reads or writes them, so the wider
frame is immaterial there), and report units that no longer verify. Development aid; never run at check time."""
import re, subprocess, sys, os
GOVC = os.environ.get("GOVC", "/verif/bin/govc")
rows = []
for l in open("/verif/CONSISTENCY.md"):
    if "assumed frame lacks" not in l: continue
    c = [x.strip() for x in l.split("|")]
    f, unit, fn = c[1], c[2], c[3].strip("`")
    ents = re.findall(r"`([^`]+)`", l.split("assumed frame lacks:")[1])
    rows.append((f, unit, fn, ents))
def edit(path, unit, fn, add=None, drop=None):
    L = open(path).read().split("\n")
    inunit = False; i = 0
    while i < len(L):
        m = re.match(r"//@ unit (\S+)", L[i])
        if m: inunit = (m.group(1) == unit)
        if inunit and L[i].strip() == "//@ func " + fn:
            j = i + 1; mod = None
            while j < len(L) and L[j].startswith("//@   "):
                if L[j].strip().startswith("//@   modifies ") or L[j].startswith("//@   modifies "): mod = j
                j += 1
            if mod is None:
                L.insert(i + 1, "//@   modifies "); mod = i + 1
            cur = [x.strip() for x in L[mod][len("//@   modifies "):].split(",") if x.strip()]
            if add: cur += [a for a in add if a not in cur]
            if drop: cur = [x for x in cur if x not in drop]
            if cur: L[mod] = "//@   modifies " + ", ".join(cur)
            else: del L[mod]
            open(path, "w").write("\n".join(L)); return True
        i += 1
    return False
def run(path, unit):
    r = subprocess.run([GOVC, "unit", "-file", path, "-unit", unit, "-text"], capture_output=True, text=True)
    return r.stdout + r.stderr
for f, unit, fn, ents in rows:
    path = "/repo/" + f
    if not edit(path, unit, fn, add=ents): print("NOBLOCK", f, unit, fn); continue
    out = run(path, unit)
    nomatch = re.findall(r'frame entry "([^"]+)" matches no heap', out)
    nomatch = [x for x in nomatch if x in ents]
    if nomatch:
        edit(path, unit, fn, drop=nomatch); out = run(path, unit)
    # frame obligations of the functions under verification that now fail: they call the function, so they write what it
    # writes - widen their own frame by the same entries and try again (up to 3 times: entries may again match no heap)
    kept0 = [e for e in ents if e not in nomatch]
    for _ in range(3):
        cur = None; widen = set()
        for l in out.split("\n"):
            m = re.match(r"== (\S+) \[", l)
            if m: cur = m.group(1)
            if "FAILED" in l and "frame/" in l and cur: widen.add(cur)
        if not widen: break
        changed = False
        for fnq in widen:
            short = fnq.split(".", 1)[1] if "." in fnq else fnq
            if edit(path, unit, short, add=kept0): changed = True
        if not changed: break
        out = run(path, unit)
        nm2 = [x for x in re.findall(r'frame entry "([^"]+)" matches no heap', out)]
        if nm2:
            for fnq in widen:
                short = fnq.split(".", 1)[1] if "." in fnq else fnq
                edit(path, unit, short, drop=nm2)
            out = run(path, unit)
    bad = [l for l in out.split("\n") if "FAILED" in l or "SPEC ERROR" in l or "ERROR:" in l]
    kept = [e for e in ents if e not in nomatch]
    print(("FAIL " if bad else "ok   "), f, unit, fn, "kept:", kept, "immaterial:", nomatch)
    for b in bad[:6]: print("      ", b.strip())
