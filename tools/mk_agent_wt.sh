#!/bin/bash
# creates /tmp/wt/<id>: a detached worktree of /repo HEAD with the contract files removed (committed locally on the detached head)
set -e
for p in "$@"; do
  git -C /repo worktree add --detach /tmp/wt/$p HEAD >/dev/null 2>&1
  (cd /tmp/wt/$p && find . -name contracts_verif.go -delete && git -c user.email=a@b -c user.name=a commit -qam "strip" )
  python3 /verif/tools/agent_prompt.py $p > /tmp/seed/prompt_$p.txt
  echo made $p
done
