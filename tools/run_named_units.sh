#!/bin/bash
# usage: run_named_units.sh <unit name regexp> : runs matching units in parallel with text output into /verif/out/dev
export GOFLAGS=-mod=mod GOPROXY=off GOSUMDB=off GOTOOLCHAIN=local
mkdir -p /verif/out/dev
find /verif/out/dev -type f -delete
find ${VERIF_REPO:-/repo} -name contracts_verif.go | while read f; do
  grep -o '^//@ unit [a-z_0-9]*' $f | awk '{print $3}' | grep -E "$1" | while read u; do d=$(basename $(dirname $f)); echo "$f $u $d"; done
done | xargs -P 10 -L 1 bash -c '/verif/bin/govc unit -file $0 -unit $1 -text -json /verif/out/dev/$2.$1.json > /verif/out/dev/$2.$1.txt 2>&1'
