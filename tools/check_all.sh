#!/bin/bash
# runs every claimed check (quick by default) and validates the evidence files
TIER=${1:-quick}
cd /verif
fail=0
for p in $(python3 -c "import json;print(' '.join(c['property_id'] for c in json.load(open('/verif/MANIFEST.json'))['checks']))"); do
  rm -f evidence/$p.json
  out=$(bin/govc check $p -tier $TIER 2>&1); rc=$?
  echo "$out" | tail -4
  [ $rc -ne 0 ] && { echo "   >>> exit $rc"; fail=1; }
  python3-vt - <<PY || fail=1
import json,jsonschema,sys
try:
    jsonschema.validate(json.load(open('/verif/evidence/$p.json')),json.load(open('/root/.vp/EVIDENCE.schema.json')))
except Exception as e:
    print('   >>> evidence invalid for $p:',str(e)[:300]); sys.exit(1)
PY
done
exit $fail
