#!/bin/bash
# evaluates every seed under /verif/seeded (4 in parallel); summary lines in /verif/out/seed_eval.txt
mkdir -p /verif/out
ls -d /verif/seeded/*/ | xargs -P 4 -I{} bash -c '/verif/tools/eval_seed.sh {} 2>&1 | grep -v "^WARNING" > /verif/out/seed_$(basename {}).txt'
cat /verif/out/seed_C*.txt | grep "^SEED" | cut -c1-90 | sort > /verif/out/seed_eval.txt
cat /verif/out/seed_eval.txt
