#!/bin/bash
# sixth-round worktrees: /tmp/wt/<id> at /repo HEAD, contract files stripped, prompt with the round6 hint (places already used)
set -e
mkdir -p /tmp/wt /tmp/seed
for p in "$@"; do
  git -C /repo worktree add --detach /tmp/wt/$p HEAD >/dev/null 2>&1
  (cd /tmp/wt/$p && find . -name contracts_verif.go -delete && git -c user.email=a@b -c user.name=a commit -qam "strip" )
  python3 /verif/tools/agent_prompt.py $p round6 > /tmp/seed/prompt6_$p.txt
  echo made $p
done
