#!/bin/bash
# must-fail corpus: every patch under selftest/mutants (canaries = reverse of a fix; hand-made mutants) and every confirmed
# seed under seeded/ must make the check of its property report a VIOLATION. usage: selftest.sh [pattern]
export GOFLAGS=-mod=mod GOPROXY=off GOSUMDB=off GOTOOLCHAIN=local
PAT=${1:-.}
cd /verif; pass=0; fail=0
run_one() { # id patch props
  local id=$1 patch=$2 props=$3
  local W=/tmp/st/$id O=/tmp/st/out_$id
  rm -rf $W $O; mkdir -p /tmp/st $O
  git -C /repo worktree add --detach $W HEAD >/dev/null 2>&1 || { echo "SELFTEST $id worktree-failed"; return 2; }
  if ! (cd $W && (git apply $patch 2>/dev/null || git apply -3 $patch 2>/dev/null || patch -p1 -s -F3 < $patch >/dev/null 2>&1)); then
     echo "SELFTEST $id patch-does-not-apply"; git -C /repo worktree remove --force $W; return 3; fi
  local det=""
  for p in $(echo $props | tr ',' ' '); do
    out=$(VERIF_REPO=$W VERIF_OUT=$O /verif/bin/govc check $p 2>&1)
    if echo "$out" | grep -q "^VIOLATION"; then det="$det $p"; echo "$out" | grep "^VIOLATION" | sed 's/replay=[^ ]* //' | head -3 | sed "s/^/    /"; fi
  done
  git -C /repo worktree remove --force $W >/dev/null 2>&1; rm -rf $W $O
  if [ -n "$det" ]; then echo "SELFTEST $id caught by$det"; return 0; else echo "SELFTEST $id MISSED (props $props)"; return 1; fi
}
for j in selftest/mutants/*.json; do
  id=$(basename $j .json); echo $id | grep -qE "$PAT" || continue
  props=$(python3 -c "import json;print(json.load(open('$j'))['properties'])")
  exp=$(python3 -c "import json;print(json.load(open('$j')).get('expect','caught'))")
  run_one $id /verif/selftest/mutants/$id.patch $props; rc=$?
  if [ "$exp" = "caught" ]; then [ $rc -eq 0 ] && pass=$((pass+1)) || fail=$((fail+1)); fi
done
echo "SELFTEST SUMMARY pass=$pass fail=$fail"
[ $fail -eq 0 ]
