#!/bin/bash
# usage: replay.sh <pkgdir relative to repo> <test file> <TestName> [repo]
REPO=${4:-${VERIF_REPO:-/repo}}
export GOFLAGS=-mod=mod GOPROXY=off GOSUMDB=off GOTOOLCHAIN=local
T=$(mktemp -d); trap "rm -rf $T" EXIT
echo "{\"Replace\":{\"$REPO/$1/zz_govc_replay_test.go\":\"$(readlink -f $2)\"}}" > $T/ov.json
cd $REPO && go test -overlay $T/ov.json -vet=off -count=1 -timeout 60s -run "$3" ./$1
