#!/usr/bin/env python3
"""add_frames.py <unit> ... : development aid. Reads /verif/out/dev/<unit>.txt (a run with frames=on), and for every function
of the unit adds the frame entries its failed `frame/...` obligations name to that function's `modifies` clause in the
contracts file (ghosts, Type.field, element and map heaps). The frame is thereby DERIVED from the current code and frozen:
from then on a write outside it is reported. Globals, anonymous structs and uncontracted callees are left for manual work."""
import re, sys, glob, os
REPO='/repo'
def entries_from(txt):
    cur=None; out={}
    for l in open(txt):
        m=re.match(r'^== (\S+) \[', l)
        if m: cur=m.group(1); continue
        m=re.search(r'FAILED\s+\S+\s+(\S*frame/\S+)', l)
        if m and cur:
            name=m.group(1).split('frame/',1)[1]
            if name.startswith('ghost:') or name.startswith('E:') or name.startswith('MV:') or name.startswith('MD:') or name.startswith('ptr:'):
                e=name
            elif re.match(r'^[A-Za-z0-9_]+\.[A-Za-z0-9_]+\.[A-Za-z0-9_]+$', name):   # pkg.Type.field
                e='.'.join(name.split('.')[1:])
            elif re.match(r'^[A-Za-z0-9_]+\.[A-Za-z0-9_]+$', name):                 # pkg.Type (whole struct) or pkg.global
                e=None
            else:
                e=None
            if e: out.setdefault(cur,set()).add(e)
    return out
def short(fn):  # "proxy.(*staticUpstream).NewHost" -> "(*staticUpstream).NewHost"
    return fn.split('.',1)[1]
for unit in sys.argv[1:]:
    txts=glob.glob('/verif/out/dev/%s.txt'%unit)+glob.glob('/verif/out/dev/*.%s.txt'%unit)
    if not txts: print('no report for',unit); continue
    ent=entries_from(txts[0])
    if not ent: print(unit,'nothing to add'); continue
    # find contracts file containing the unit
    for f in glob.glob(REPO+'/**/contracts_verif.go', recursive=True):
        s=open(f).read()
        m=re.search(r'^//@ unit %s .*$'%re.escape(unit), s, re.M)
        if not m: continue
        start=m.start(); nxt=re.search(r'^//@ unit ', s[m.end():], re.M)
        end=m.end()+nxt.start() if nxt else len(s)
        blk=s[start:end]
        for fn,es in ent.items():
            sh=short(fn)
            fm=re.search(r'^//@ func %s\n'%re.escape(sh), blk, re.M)
            if not fm: print(unit,'no func block for',sh); continue
            # body of the func block
            bstart=fm.end(); bm=re.search(r'^//@ (?!  )', blk[bstart:], re.M)
            bend=bstart+bm.start() if bm else len(blk)
            body=blk[bstart:bend]
            mm=re.search(r'^//@   modifies (.*)$', body, re.M)
            if mm:
                have=[x.strip() for x in mm.group(1).split(',')]
                new=have+[e for e in sorted(es) if e not in have]
                body=body[:mm.start()]+'//@   modifies '+', '.join(new)+body[mm.end():]
            else:
                body='//@   modifies '+', '.join(sorted(es))+'\n'+body
            blk=blk[:bstart]+body+blk[bend:]
            print(unit, sh, '+', sorted(es))
        s=s[:start]+blk+s[end:]
        open(f,'w').write(s)
        break
