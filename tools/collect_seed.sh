#!/bin/bash
# usage: collect_seed.sh C12 [C13 ...] : copies round-2 deliveries /tmp/seed/<id>C,<id>D into /verif/seeded and removes the agent's worktree
for id in "$@"; do
  for s in ${SEED_LETTERS:-G H}; do
    if [ -d /tmp/seed/${id}$s ]; then mkdir -p /verif/seeded/${id}$s; cp -r /tmp/seed/${id}$s/. /verif/seeded/${id}$s/; echo "copied ${id}$s"; fi
  done
  if [ -d /tmp/wt/$id ]; then git -C /repo worktree remove --force /tmp/wt/$id && echo "removed worktree $id"; fi
done
git -C /repo worktree prune
