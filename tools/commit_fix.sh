#!/bin/bash
# usage: commit_fix.sh <finding id> <props> "<commit message after 'fix: '>" <source files...>
# commits the fix in /repo (unguarded, minimal) and keeps the reverse patch as a canary mutant (re-introduces the defect)
set -e
ID=$1; PROPS=$2; MSG=$3; shift 3
cd /repo
mkdir -p /verif/selftest/mutants
git diff -R -- "$@" > /verif/selftest/mutants/${ID}_prefix.patch
git add -- "$@"
git commit -qm "fix: $MSG"
H=$(git rev-parse --short HEAD)
echo "{\"id\":\"$ID\",\"properties\":\"$PROPS\",\"kind\":\"reintroduces a repaired defect\",\"fix_commit\":\"$H\"}" > /verif/selftest/mutants/${ID}_prefix.json
echo "committed $H"
